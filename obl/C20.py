_ORD = ["COLssLoad", "COLssInit", "COTmrClear", "CONmtInit", "COSdoInit", "COIfCanReset", "COEmcyReset", "COSyncInit", "CONmtBootup", "COObjReset"]
GROUPS = [
 dict(name="nmt_reset", enforce="CONmtReset/CONmtReset_fresh", harness="nmt_reset.c", tus=["core/co_nmt.c", "core/co_dict.c"], nondet_static=True,
      replace=[x + "/" + x + "_ord" for x in _ORD] + ["CONmtSetMode", "CONodeFatalError"], unwind_all=3, reach=["post", "a", "b", "c"],
      props={"C20": "quick", "C18": dict(tier="quick", only=["G_ORD_LSSLOAD"]), "C10": dict(tier="quick", only=["Nmt.Tmr"]),
             "C16": dict(tier="quick", only=["Sync."]), "C17": dict(tier="quick", only=["G_PARARESET", "G_ORD_PARA"]), "C01": "quick",
             # C05: an NMT reset is one of the histories after which a server must behave like a fresh one
             "C05": dict(tier="quick", only=["SDO_IDLE", "G_ORD_SDOINIT"])}, timeout=300, object_bits=10),
]
