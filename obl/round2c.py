# set-up functions of CONodeInit and small accessors
def _s(name, fn, op, tus, props, **kw):
    d = dict(name=name, fn=fn, form="explicit", harness="setup_fn.c", tus=tus, loop_tus={}, defs=["VW_OP=%d" % op], nondet_static=True, unwind_all=33,
             reach=["post", "a", "b"], props=props, timeout=300, cost=3, object_bits=10)
    d.update(kw)
    return d
GROUPS = [
 _s("nmt_setnodeid", "CONmtSetNodeId", 0, ["core/co_nmt.c"], {"C18": "quick", "C09": "quick", "C01": "quick"}),
 _s("tpdo_clear", "COTPdoClear", 1, ["service/cia301/co_pdo.c"], {"C20": "quick", "C12": "quick", "C01": "quick"}),
 _s("rpdo_clear", "CORPdoClear", 2, ["service/cia301/co_pdo.c"], {"C20": "quick", "C13": "quick", "C01": "quick"}),
 _s("sync_restart", "COSyncRestart", 3, ["service/cia301/co_sync.c"], {"C12": "quick", "C16": "quick", "C01": "quick"}),
 _s("emcy_init", "COEmcyInit", 4, ["service/cia301/co_emcy.c", "object/cia301/co_emcy_hist.c"], {"C15": "quick", "C20": "quick", "C01": "quick"}, defs=["VW_OP=4", "CO_EMCY_N=8"]),
 _s("obj_user_abort", "COObjTypeUserSDOAbort", 6, ["core/co_obj.c"], {"C04": "quick", "C01": "quick"}),
 _s("obj_init", "COObjInit", 7, ["core/co_obj.c"], {"C06": "quick", "C01": "quick"}),
 _s("nmt_get", "CONmtGetMode/CONmtGetNodeId", 5, ["core/co_nmt.c"], {"C09": "quick", "C01": "quick"}),
]
GROUPS.append(dict(name="lss_delay", fn="CO_LssActivateBitTiming_SwitchDelay", form="explicit", harness="lss_delay.c", static_tu="service/cia305/co_lss.c", tus=[], loop_tus={}, defs=[], nondet_static=True,
                   unwind_all=22, reach=["post", "a", "b"], props={"C01": "quick"}, timeout=300, cost=3, object_bits=10))
