# groups added in round 2: heartbeat consumer type functions (1016h through SDO / at node initialisation), timer pool set-up, minimal timer time
def _h(name, fn, op, reach, props):
    return dict(name=name, fn=fn, form="explicit", harness="hbc_fn.c", static_tu="object/cia301/co_hb_cons.c", defs=["VW_OP=%d" % op], nondet_static=True,
                tus=["object/basic/co_integer8.c", "core/co_nmt.c"], loop_tus={}, unwind_all=6, reach=["post"] + reach,
                props=props, timeout=600, cost=10, object_bits=10,
                bounded="consumer chain of <= 3 entries (arbitrary well-formed chain, all node ids, times, timers, counters symbolic)")
GROUPS = [_h("hbc_type_write", "COTNmtHbConsWrite", 5, ["a", "b", "c"], {"C11": "quick", "C01": "quick"}), _h("hbc_type_read", "COTNmtHbConsRead", 6, ["a", "b"], {"C11": "quick", "C01": "quick"}),
          _h("hbc_type_size", "COTNmtHbConsSize", 7, ["a", "b"], {"C11": "quick", "C01": "quick"}), _h("hbc_type_init", "COTNmtHbConsInit", 8, ["a", "b"], {"C11": "quick", "C20": "quick", "C01": "quick"})]
GROUPS += [dict(name="tmr_init", fn="COTmrInit", form="explicit", harness="tmr_init.c", static_tu="core/co_tmr.c", tus=[], loop_tus={}, defs=["VW_OP=0", "VW_TMR_N=4"], nondet_static=True,
                unwind_all=5, reach=["post", "a", "b"], props={"C07": "quick", "C20": "quick", "C01": "quick"}, timeout=600, cost=5, object_bits=10,
                bounded="timer pool of 4 slots (pool memory and manager state arbitrary before the call)")]
for _f, _u in ((300, 10000), (1500, 10000), (1000, 10000), (7, 10000), (10001, 10000), (48000000, 10000)):
    GROUPS.append(dict(name="tmr_mintime_%d_%d" % (_f, _u), fn="COTmrGetMinTime", form="explicit", harness="tmr_init.c", static_tu="core/co_tmr.c", tus=[], loop_tus={}, defs=["VW_OP=1", "VW_FREQ=%du" % _f, "VW_UNIT=%du" % _u], nondet_static=True,
                       unwind_all=3, reach=["post", "a"] + (["b"] if _f < _u else []), props={"C16": "quick", "C07": "quick", "C01": "quick"}, timeout=600, cost=5, object_bits=10,
                       bounded="timer frequency %d Hz with time unit 1/%d s (one of 6 listed pairs: dividing, multiple, neither); every 16-bit time" % (_f, _u)))
