def _p(name, fn, op, tus, props, reach=("a", "b"), **kw):
    d = dict(name=name, fn=fn, form="explicit", harness="pdo_fn.c", tus=tus, defs=["VW_OP=%d" % op], nondet_static=True,
             unwind_all=9, reach=["post"] + list(reach), props=props, timeout=600, cost=20, object_bits=10)
    d.update(kw)
    return d
_PDO = ["service/cia301/co_pdo.c", "service/cia301/co_sync.c"]
GROUPS = [
 _p("rpdo_write", "CORPdoWrite", 0, _PDO, {"C13": "quick", "C01": "quick"}),
 _p("tpdo_tx", "COTPdoTx", 1, _PDO, {"C12": "quick", "C09": "quick", "C01": "quick"}),
 _p("rpdo_rx", "CORPdoRx/COSyncRx", 2, _PDO, {"C13": "quick", "C01": "quick"}),
 _p("rpdo_check", "CORPdoCheck", 3, _PDO, {"C13": "quick", "C01": "quick"}),
 _p("tpdo_tmr_inhibit", "COTPdoTmrInhibit", 5, _PDO, {"C12": "quick", "C01": "quick"}),
 _p("tpdo_tmr_event", "COTPdoTmrEvent", 6, _PDO, {"C12": "quick", "C01": "quick", "C10": "quick"}),   # C10: no stale timer id survives (a stale id deletes a foreign timer, e.g. the heartbeat producer's)
 _p("sync_tpdo", "COSyncUpdate/COSyncHandler", 7, _PDO, {"C12": "quick", "C16": "quick", "C01": "quick"}),
 _p("sync_update", "COSyncUpdate", 8, _PDO, {"C16": "quick", "C01": "quick"}),
 _p("rpdo_getmap", "CORPdoGetMap", 9, _PDO, {"C14": "quick", "C13": "quick", "C01": "quick"}, defs=["VW_OP=9", "VW_MAPN_MAX=3"], unwind_all=9, unwind={"CORPdoGetMap.1": 4, "CORPdoGetMap.0": 8},
    bounded="stored RPDO mapping count <= 3 entries (lengths, dummies, targets symbolic)"),
 _p("tpdo_getmap", "COTPdoGetMap", 10, _PDO, {"C14": "quick", "C12": "quick", "C01": "quick"}, unwind_all=9, unwind={"COTPdoMapAdd.0": 33}, defs=["VW_OP=10", "CO_TPDO_N=4"]),
 _p("sync_prod_send", "COSyncProdSend", 11, _PDO, {"C16": "quick", "C09": "quick", "C01": "quick"}),
 _p("sync_handler_rx", "COSyncHandler", 4, _PDO, {"C13": "quick", "C16": "quick", "C01": "quick"}),
 _p("sync_add", "COSyncAdd", 0, _PDO, {"C12": "quick", "C13": "quick", "C16": "quick", "C01": "quick"}, harness="pdo_reset_fn.c", defs=["VW_OP=0"]),
 _p("sync_remove", "COSyncRemove", 1, _PDO, {"C12": "quick", "C13": "quick", "C16": "quick", "C01": "quick"}, harness="pdo_reset_fn.c", defs=["VW_OP=1"]),
 _p("tpdo_reset", "COTPdoReset", 2, _PDO, {"C12": "quick", "C13": "quick", "C14": "quick", "C01": "quick"}, harness="pdo_reset_fn.c", defs=["VW_OP=2", "VW_MAPN_MAX=2"], unwind={"COTPdoMapAdd.0": 33, "COTPdoMapDelNum.0": 33}, sat="cadical",
    bounded="stored mapping count <= 2 entries (the mapping itself is the tpdo_getmap group); everything else symbolic"),
 _p("rpdo_reset", "CORPdoReset", 3, _PDO, {"C13": "quick", "C12": "quick", "C14": "quick", "C01": "quick"}, harness="pdo_reset_fn.c", defs=["VW_OP=3", "VW_MAPN_MAX=2"], unwind={"CORPdoGetMap.1": 4, "CORPdoGetMap.0": 8},
    bounded="stored mapping count <= 2 entries (the mapping itself is the rpdo_getmap group); everything else symbolic"),
 _p("tpdo_init", "COTPdoInit", 4, _PDO, {"C12": "quick", "C20": "quick", "C01": "quick"}, harness="pdo_reset_fn.c", defs=["VW_OP=4", "VW_MAPN_MAX=1"], unwind={"COTPdoMapAdd.0": 33, "COTPdoMapClear.0": 33, "COTPdoMapDelNum.0": 33}, timeout=900,
    bounded="stored mapping count <= 1 entry (the mapping itself is the tpdo_getmap group); 4 TPDOs, everything else symbolic"),
 _p("rpdo_init", "CORPdoInit", 5, _PDO, {"C13": "quick", "C20": "quick", "C01": "quick"}, harness="pdo_reset_fn.c", defs=["VW_OP=5", "VW_MAPN_MAX=1"], unwind={"CORPdoGetMap.1": 4, "CORPdoGetMap.0": 8}, timeout=900,
    bounded="stored mapping count <= 1 entry (the mapping itself is the rpdo_getmap group); 4 RPDOs, everything else symbolic"),
]
# application-side triggers (explicit form; the callee inside co_pdo.c is stubbed by removing its body from the goto binary, vf.py stub_bodies)
GROUPS += [
 _p("tpdo_trig_pdo", "COTPdoTrigPdo", 0, ["service/cia301/co_pdo.c"], {"C12": "quick", "C01": "quick"}, harness="pdo_trig.c", stub_bodies={"service/cia301/co_pdo.c": ["COTPdoTx"]}, cost=2),
 _p("tpdo_trig_obj", "COTPdoTrigObj", 1, ["service/cia301/co_pdo.c"], {"C12": "quick", "C01": "quick"}, harness="pdo_trig.c", stub_bodies={"service/cia301/co_pdo.c": ["COTPdoTrigPdo"]}, unwind_all=33, cost=5, sat="cadical"),
]
