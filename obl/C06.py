GROUPS = [
 dict(name="dict_find", enforce="CODictFind", harness="dict_find.c", tus=["core/co_dict.c"],
      contracts=["dict.h"], defs=["VW_DICT_FIND_GHOST"], replace=["vw_sorted_inst"],
      loops={"CODictFind.0": "VWL_dict_find"}, reach=["post", "found", "notfound"],
      props={"C06": "quick", "C01": "quick", "C04": "thorough"}, timeout=300, cost=20),
]
