GROUPS = [
 dict(name="dict_find", enforce="CODictFind", harness="dict_find.c", tus=["core/co_dict.c"],
      contracts=["dict.h"], defs=["VW_DICT_FIND_GHOST", "VW_DICT_SYMSIZE"], replace=["vw_sorted_inst"],
      loops={"CODictFind.0": "VWL_dict_find"}, reach=["post", "found", "notfound"], nondet_static=True,
      props={"C06": "quick", "C01": "quick", "C04": "thorough"}, timeout=300, cost=20),
]

def _int_groups():
    gs = []
    for w, n in ((1, "8"), (2, "16"), (4, "32")):
        for opi, op in enumerate(("Size", "Read", "Write")):
            reach = ["post"] + (["ok"] if op != "Size" else []) + (["trig"] if op == "Write" else [])
            gs.append(dict(name="int%s_%s" % (n, op.lower()), enforce="COTInt%s%s" % (n, op), harness="int_fn.c",
                           static_tu="object/basic/co_integer%s.c" % n, defs=["VW_W=%d" % w, "VW_OP=%d" % opi],
                           replace=["COTPdoTrigObj"] if op == "Write" else [], nondet_static=True, reach=reach,
                           props={"C06": "quick", "C01": "quick", "C02": "quick", "C12": "quick"}, timeout=120))
    return gs
GROUPS += _int_groups()

def _dom_groups():
    gs = []
    for opi, op in enumerate(("Size", "Read", "Write", "Init", "Reset")):
        g = dict(name="dom_%s" % op.lower(), enforce="COTDomain%s" % op, harness="dom_fn.c",
                 static_tu="object/basic/co_domain.c", defs=["VW_OP=%d" % opi], nondet_static=True,
                 reach=["post"] + (["moved", "clipped"] if op in ("Read", "Write") else []),
                 props={"C06": "quick", "C01": "quick", "C02": "quick", "C03": "quick"}, timeout=300)
        if op in ("Read", "Write"):   # explicit form, see contracts/domain.h
            g.update(form="explicit", enforce=None, fn="COTDomain" + op, cost=30,
                     loops={"COTDomain%s.0" % op: "VWL_dom_" + op.lower()})
        gs.append(g)
    return gs
GROUPS += _dom_groups()

def _str_groups():
    gs = []
    for opi, op in enumerate(("Size", "Read", "Init", "Reset")):
        g = dict(name="str_%s" % op.lower(), enforce="COTString%s" % op, harness="str_fn.c",
                 static_tu="object/basic/co_string.c", defs=["VW_OP=%d" % opi], nondet_static=True,
                 reach=["post"] + {"Size": ["long"], "Read": ["clipped", "full"]}.get(op, []),
                 props={"C06": "quick", "C01": "quick", "C03": "quick"}, timeout=300)
        if op in ("Size", "Read"):
            g.update(form="explicit", enforce=None, fn="COTString" + op, cost=30,
                     loops={"COTString%s.0" % op: "VWL_str_" + op.lower()})
        gs.append(g)
    return gs
GROUPS += _str_groups()
GROUPS += [
 dict(name="dict_init", enforce="CODictInit", harness="dict_init.c", tus=["core/co_dict.c"],
      contracts=["dict.h"], loops={"CODictInit.0": "VWL_dict_init"}, reach=["post", "some", "full"],
      props={"C06": "quick", "C01": "quick"}, timeout=300, cost=10),
 dict(name="dict_objinit", enforce="CODictObjInit", harness="dict_objinit.c", tus=["core/co_dict.c"],
      contracts=["dict.h"], replace=["COObjInit", "vw_sorted_inst"], loops={"CODictObjInit.0": "VWL_dict_objinit"}, nondet_static=True, defs=["VW_DICT_SYMSIZE"],
      reach=["post", "some"], props={"C06": "quick", "C01": "quick", "C20": "quick"}, timeout=300, cost=10),
]

def _typed_groups():
    gs = []
    for w, n in ((1, "byte"), (2, "word"), (4, "long")):
        gs.append(dict(name="dict_typed_%s" % n, fn="CODictRd%s/CODictWr%s" % (n.capitalize(), n.capitalize()), form="explicit",
                       harness="dict_typed.c", tus=["core/co_dict.c", "core/co_obj.c", "object/basic/co_integer8.c",
                                                    "object/basic/co_integer16.c", "object/basic/co_integer32.c"],
                       defs=["VW_W=%d" % w, "VW_DN=3"], nondet_static=True,
                       unwind={"CODictFind.0": 3, "vw_dict_init.0": 4, "vw_dict_lookup.0": 4, "COObjTypeUserSDOAbort.0": 3},
                       reach=["post", "rd_ok", "rd_size", "wr_ok", "wr_nodeid"],
                       bounded="dictionary layout of <= 3 entries (keys, flags, types, values symbolic); CODictFind exactness for every size is group dict_find",
                       props={"C06": "quick", "C01": "quick"}, timeout=300, cost=5))
    return gs
GROUPS += _typed_groups()
for _w, _n in ((0, "Rd"), (1, "Wr")):
    GROUPS.append(dict(name="dict_buf_" + _n.lower(), enforce="CODict%sBuffer" % _n, harness="dict_buf.c",
        tus=["core/co_dict.c"], defs=["VW_WRITE=%d" % _w], nondet_static=True,
        replace=["CODictFind", "COObj%sBufStart" % _n], reach=["post", "big", "notfound"],
        props={"C06": "quick", "C01": "quick"}, timeout=300, cost=5))

def _obj_groups():
    gs = []
    fps = {"COObjGetSize": ["size"], "COObjRdValue": ["read"], "COObjWrValue": ["write"],
           "COObjRdBufStart": ["reset", "read"], "COObjRdBufCont": ["read"], "COObjWrBufStart": ["reset", "write"],
           "COObjWrBufCont": ["write"], "COObjReset": ["reset"]}
    kinds = {"COObjGetSize": 0, "COObjRdValue": 1, "COObjWrValue": 1, "COObjReset": 3}
    for fn, calls in fps.items():
        fp, repl = [], []
        if fn.endswith("BufStart"):     # COObjRdBufStart calls COObjReset (own group) then the type function
            repl.append("COObjReset")
            fp.append("%s.function_pointer_call.1/%s_contract" % (fn, calls[1]))
            repl.append(calls[1] + "_contract")
        else:
            fp.append("%s.function_pointer_call.1/%s_contract" % (fn, calls[0]))
            repl.append(calls[0] + "_contract")
        gs.append(dict(name="obj_" + fn[5:].lower(), enforce=fn, harness="obj_fn.c", tus=["core/co_obj.c"],
                       defs=["VW_FN=" + fn, "VW_KIND=%d" % kinds.get(fn, 2), "VW_ENFORCE_OBJ"], nondet_static=True,
                       fp=fp, replace=repl, reach=["post"] + ([] if fn == "COObjGetSize" else ["called"]),
                       props={"C06": "quick", "C01": "quick"}, timeout=200, cost=3))
    return gs
GROUPS += _obj_groups()
