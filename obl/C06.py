GROUPS = [
 dict(name="dict_find", enforce="CODictFind", harness="dict_find.c", tus=["core/co_dict.c"],
      contracts=["dict.h"], defs=["VW_DICT_FIND_GHOST"], replace=["vw_sorted_inst"],
      loops={"CODictFind.0": "VWL_dict_find"}, reach=["post", "found", "notfound"],
      props={"C06": "quick", "C01": "quick", "C04": "thorough"}, timeout=300, cost=20),
]

def _int_groups():
    gs = []
    for w, n in ((1, "8"), (2, "16"), (4, "32")):
        for opi, op in enumerate(("Size", "Read", "Write")):
            reach = ["post"] + (["ok"] if op != "Size" else []) + (["trig"] if op == "Write" else [])
            gs.append(dict(name="int%s_%s" % (n, op.lower()), enforce="COTInt%s%s" % (n, op), harness="int_fn.c",
                           static_tu="object/basic/co_integer%s.c" % n, defs=["VW_W=%d" % w, "VW_OP=%d" % opi],
                           replace=["COTPdoTrigObj"] if op == "Write" else [], nondet_static=True, reach=reach,
                           props={"C06": "quick", "C01": "quick", "C02": "quick", "C12": "quick"}, timeout=120))
    return gs
GROUPS += _int_groups()

def _dom_groups():
    gs = []
    for opi, op in enumerate(("Size", "Read", "Write", "Init", "Reset")):
        g = dict(name="dom_%s" % op.lower(), enforce="COTDomain%s" % op, harness="dom_fn.c",
                 static_tu="object/basic/co_domain.c", defs=["VW_OP=%d" % opi], nondet_static=True,
                 reach=["post"] + (["moved", "clipped"] if op in ("Read", "Write") else []),
                 props={"C06": "quick", "C01": "quick", "C02": "quick", "C03": "quick"}, timeout=300)
        if op in ("Read", "Write"):   # explicit form, see contracts/domain.h
            g.update(form="explicit", enforce=None, fn="COTDomain" + op, cost=30,
                     loops={"COTDomain%s.0" % op: "VWL_dom_" + op.lower()})
        gs.append(g)
    return gs
GROUPS += _dom_groups()

def _str_groups():
    gs = []
    for opi, op in enumerate(("Size", "Read", "Init", "Reset")):
        g = dict(name="str_%s" % op.lower(), enforce="COTString%s" % op, harness="str_fn.c",
                 static_tu="object/basic/co_string.c", defs=["VW_OP=%d" % opi], nondet_static=True,
                 reach=["post"] + {"Size": ["long"], "Read": ["clipped", "full"]}.get(op, []),
                 props={"C06": "quick", "C01": "quick", "C03": "quick"}, timeout=300)
        if op in ("Size", "Read"):
            g.update(form="explicit", enforce=None, fn="COTString" + op, cost=30,
                     loops={"COTString%s.0" % op: "VWL_str_" + op.lower()})
        gs.append(g)
    return gs
GROUPS += _str_groups()
