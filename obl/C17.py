def _q(name, fn, op, tu):
    return dict(name=name, fn=fn, form="explicit", harness="para_fn.c", static_tu=tu, defs=["VW_OP=%d" % op], nondet_static=True,
                tus=["object/basic/co_integer8.c", "object/basic/co_integer32.c"] + (["object/cia301/co_para_store.c"] if "restore" in tu else []) , loop_tus={}, unwind_all=6,
                reach=["post", "a", "b"], props={"C17": "quick", "C01": "quick"}, timeout=600, cost=10, object_bits=10,
                bounded="at most 4 parameter groups (presence, sizes, offsets, types, enable flags, driver results symbolic)")
GROUPS = [_q("para_store_write", "COTParaStoreWrite", 0, "object/cia301/co_para_store.c"), _q("para_restore_write", "COTParaRestoreWrite", 1, "object/cia301/co_para_restore.c"),
          _q("para_load", "CONodeParaLoad", 2, "object/cia301/co_para_store.c"), _q("para_init", "COTParaStoreInit", 4, "object/cia301/co_para_store.c"), _q("para_reset", "COTParaStoreReset", 5, "object/cia301/co_para_store.c"),
          _q("para_store", "COParaStore", 3, "object/cia301/co_para_store.c")]
