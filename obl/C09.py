GROUPS = [
 dict(name="nmt_setmode", enforce="CONmtSetMode", harness="nmt_fn.c", tus=["core/co_nmt.c"], defs=["VW_OP=0"], nondet_static=True,
      replace=["COTPdoInit", "CORPdoInit", "CONmtModeChange", "CONodeFatalError"], reach=["post", "pdoinit"],
      props={"C09": "quick", "C01": "quick", "C20": "quick", "C10": dict(tier="quick", only=["assigns"]),
             # C14: 'the configuration the node activates on entering OPERATIONAL': the PDOs are (re)activated on EVERY entry (seeded change C14_I2)
             "C14": dict(tier="quick", only=["G_PDOINIT_N"])}, timeout=120),
 dict(name="nmt_check", enforce="CONmtCheck", harness="nmt_fn.c", tus=["core/co_nmt.c"], defs=["VW_OP=1"], nondet_static=True,
      replace=["CONmtSetMode", "CONmtReset", "CONmtResetRequest"], reach=["post", "stopped", "bootup", "notnmt"],
      props={"C09": "quick", "C01": "quick", "C10": dict(tier="quick", only=["assigns"])}, timeout=120),
 dict(name="nmt_bootup", enforce="CONmtBootup", harness="nmt_fn.c", tus=["core/co_nmt.c"], defs=["VW_OP=2"], nondet_static=True,
      replace=["CONmtSetMode", "COIfCanSend"], reach=["post", "bootup"], unwind={"CONmtBootup.0": 2},
      props={"C09": "quick", "C01": "quick", "C20": "quick", "C10": dict(tier="quick", only=["assigns"])}, timeout=120),
 dict(name="nmt_init", enforce="CONmtInit", harness="nmt_fn.c", tus=["core/co_nmt.c"], defs=["VW_OP=3"], nondet_static=True,
      replace=["CONmtSetMode", "CONodeFatalError"], reach=["post"],
      props={"C09": "quick", "C01": "quick", "C20": "quick", "C10": dict(tier="quick", only=["assigns"])}, timeout=120),
 dict(name="node_start", enforce="CONodeStart", harness="nmt_fn.c", tus=["core/co_core.c"], defs=["VW_OP=4"], nondet_static=True,
      replace=["CONmtGetMode", "CONmtBootup"], reach=["post", "bootup"],
      props={"C09": "quick", "C01": "quick", "C20": "quick", "C10": dict(tier="quick", only=["assigns"])}, timeout=120),
]
GROUPS.append(dict(name="node_process", fn="CONodeProcess", form="explicit", harness="node_process.c", tus=["core/co_core.c"], nondet_static=True,
      unwind_all=3, reach=["post", "a", "b", "c", "d"], nobody_ok=[],
      props={"C09": "quick", "C04": "quick", "C18": "quick", "C01": "quick"}, timeout=300))
