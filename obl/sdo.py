def _g(name, fn, call, repl, reach="", props=None, **kw):
    d = dict(name=name, enforce=fn, harness="sdo_fn.c", tus=["service/cia301/co_ssdo.c", "core/co_dict.c"], nondet_static=True,
             unwind={"CODictFind.0": 4}, object_bits=9,
             defs=["VW_CALL=" + call, "VW_REACH=" + reach], replace=repl,
             reach=["post"] + [x for x in ("a", "b", "c", "d") if ('REACH:%s"' % x) in reach],
             props=props or {"C01": "quick", "C04": "quick", "C05": "quick"}, timeout=300, cost=5)
    d.update(kw)
    return d
def R(label, cond):
    return 'if (%s) { __CPROVER_assert(0, "REACH:%s"); }' % (cond, label)
SRVP = "&V_NODE.Sdo[G_N]"
GROUPS = [
 _g("sdo_abort", "COSdoAbort", "COSdoAbort(%s, H_A32)" % SRVP, []),
 _g("sdo_abortreq", "COSdoAbortReq", "COSdoAbortReq(%s)" % SRVP, []),
 _g("sdo_getobject", "COSdoGetObject", "CO_ERR e = COSdoGetObject(%s, H_A16)" % SRVP, ["COSdoAbort"],
    R("a", "e == CO_ERR_NONE") + R("b", "e != CO_ERR_NONE && V_FRM.Data[4] == 0x11")),
 _g("sdo_getsize", "COSdoGetSize", "uint32_t r = COSdoGetSize(%s, H_A32, H_AB)" % SRVP, ["COObjGetSize", "COSdoAbort"],
    R("a", "r > 4") + R("b", "r == 0 && V_FRM.Data[4] == 0x13")),
]
