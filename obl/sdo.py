def _g(name, fn, call, repl, reach="", props=None, **kw):
    d = dict(name=name, enforce=fn, harness="sdo_fn.c", tus=["service/cia301/co_ssdo.c", "core/co_dict.c"], nondet_static=True,
             unwind_all=9, object_bits=9,
             defs=["VW_CALL=" + call, "VW_REACH=" + reach], replace=repl,
             reach=["post"] + [x for x in ("a", "b", "c", "d") if ('REACH:%s"' % x) in reach],
             props=props or {"C01": "quick", "C04": "quick", "C05": "quick"}, timeout=300, cost=5)
    d.update(kw)
    if "extra_defs" in kw:
        d["defs"] = d["defs"] + kw["extra_defs"]
    return d
def R(label, cond):
    return 'if (%s) { __CPROVER_assert(0, "REACH:%s"); }' % (cond, label)
SRVP = "&V_NODE.Sdo[G_N]"
GROUPS = [
 _g("sdo_abort", "COSdoAbort", "COSdoAbort(%s, H_A32)" % SRVP, []),
 _g("sdo_abortreq", "COSdoAbortReq", "COSdoAbortReq(%s)" % SRVP, []),
 _g("sdo_getobject", "COSdoGetObject", "CO_ERR e = COSdoGetObject(%s, H_A16)" % SRVP, ["COSdoAbort"],
    R("a", "e == CO_ERR_NONE") + R("b", "e != CO_ERR_NONE && V_FRM.Data[4] == 0x11"), timeout=600, cost=40, extra_defs=["VW_DICT_SMALL=3"]),
 _g("sdo_dl_exp", "COSdoDownloadExpedited", "CO_ERR e = COSdoDownloadExpedited(%s)" % SRVP, ["COObjWrValue", "COObjReset", "COSdoGetSize", "COSdoAbort"],
    R("a", "e == CO_ERR_NONE") + R("b", "e != CO_ERR_NONE && V_FRM.Data[4] == 0x30")),
 _g("sdo_ul_exp", "COSdoUploadExpedited", "CO_ERR e = COSdoUploadExpedited(%s)" % SRVP, ["COObjRdValue", "COObjReset", "COSdoGetSize", "COSdoAbort", "COSdoInitUploadSegmented"],
    R("a", "e == CO_ERR_NONE && V_FRM.Data[0] == 0x4B") + R("b", "e == CO_ERR_NONE && V_FRM.Data[0] == 0x41")),
 _g("sdo_ul_seg_init", "COSdoInitUploadSegmented", "CO_ERR e = COSdoInitUploadSegmented(%s, H_A32)" % SRVP, ["COObjRdBufStart", "COSdoAbort"],
    R("a", "e == CO_ERR_NONE")),
 _g("sdo_ul_seg", "COSdoUploadSegmented", "CO_ERR e = COSdoUploadSegmented(%s)" % SRVP, ["COObjRdBufCont", "COSdoAbort"],
    R("a", "e == CO_ERR_NONE && (V_FRM.Data[0] & 1)") + R("b", "e == CO_ERR_NONE && !(V_FRM.Data[0] & 1)")),
 _g("sdo_dl_seg_init", "COSdoInitDownloadSegmented", "CO_ERR e = COSdoInitDownloadSegmented(%s)" % SRVP, ["COObjWrBufStart", "COObjReset", "COSdoGetSize", "COSdoAbort"],
    R("a", "e == CO_ERR_NONE")),
 _g("sdo_dl_seg", "COSdoDownloadSegmented", "CO_ERR e = COSdoDownloadSegmented(%s)" % SRVP, ["COObjWrBufCont", "COSdoAbort"],
    R("a", "e == CO_ERR_NONE && V_NODE.Sdo[G_N].Obj == 0") + R("b", "e == CO_ERR_NONE && V_NODE.Sdo[G_N].Obj != 0")),
 _g("sdo_dl_blk_init", "COSdoInitDownloadBlock", "CO_ERR e = COSdoInitDownloadBlock(%s)" % SRVP, ["COObjWrBufStart", "COObjReset", "COSdoGetSize", "COSdoAbort"],
    R("a", "e == CO_ERR_NONE")),
 _g("sdo_dl_blk", "COSdoDownloadBlock", "CO_ERR e = COSdoDownloadBlock(%s)" % SRVP, ["COObjWrBufCont", "COSdoAbort"],
    R("a", "e == CO_ERR_NONE && V_NODE.Sdo[G_N].Blk.State == BLK_DNWAIT") + R("b", "e == CO_ERR_SDO_SILENT && V_NODE.Sdo[G_N].Blk.SegCnt == 100") + R("c", "e == CO_ERR_SDO_ABORT")),
 _g("sdo_dl_blk_end", "COSdoEndDownloadBlock", "CO_ERR e = COSdoEndDownloadBlock(%s)" % SRVP, ["COObjWrBufCont", "COSdoAbort"],
    R("a", "e == CO_ERR_NONE")),
 _g("sdo_ul_blk_init", "COSdoInitUploadBlock", "CO_ERR e = COSdoInitUploadBlock(%s)" % SRVP, ["COObjRdBufStart", "COObjReset", "COSdoGetSize", "COSdoAbort", "COSdoAbortReq"],
    R("a", "e == CO_ERR_NONE") + R("b", "e != CO_ERR_NONE && V_FRM.Data[4] == 0x02"), extra_defs=["VW_DICT_SMALL=3"]),
 dict(name="sdo_ul_blk", fn="COSdoUploadBlock", form="explicit", harness="sdo_ul_blk.c", tus=["service/cia301/co_ssdo.c", "core/co_dict.c"],
      nondet_static=True, contracts=["sdo.h"], loops={"COSdoUploadBlock.0": "VWL_ulb_move", "COSdoUploadBlock.6": "VWL_ulb_main"},
      loop_tus={"COSdoUploadBlock": "service/cia301/co_ssdo.c"}, unwind_all=9, object_bits=9, reach=["post", "a", "b", "c"],
      props={"C01": "quick", "C04": "quick", "C03": "quick"}, timeout=900, cost=60),
 _g("sdo_ul_blk_ack", "COSdoAckUploadBlock", "CO_ERR e = COSdoAckUploadBlock(%s)" % SRVP, ["COSdoUploadBlock", "COSdoAbort", "COSdoAbortReq"],
    R("a", "e == CO_ERR_NONE") + R("b", "e == CO_ERR_SDO_SILENT") + R("c", "e == CO_ERR_SDO_ABORT")),
 _g("sdo_ul_blk_end", "COSdoEndUploadBlock", "CO_ERR e = COSdoEndUploadBlock(%s)" % SRVP, []),
 _g("sdo_check", "COSdoCheck", "CO_SDO *r = COSdoCheck(V_NODE.Sdo, &V_FRM)", [], R("a", "r != 0") + R("b", "r == 0")),
 _g("sdo_response", "COSdoResponse", "CO_ERR e = COSdoResponse(%s)" % SRVP,
    ["COSdoGetObject", "COSdoDownloadExpedited", "COSdoUploadExpedited", "COSdoInitDownloadSegmented", "COSdoDownloadSegmented", "COSdoUploadSegmented",
     "COSdoInitDownloadBlock", "COSdoDownloadBlock", "COSdoEndDownloadBlock", "COSdoInitUploadBlock", "COSdoUploadBlock", "COSdoAckUploadBlock",
     "COSdoEndUploadBlock", "COSdoAbort", "COSdoAbortReq"],
    R("a", "e == CO_ERR_NONE") + R("b", "e == CO_ERR_SDO_SILENT") + R("c", "e == CO_ERR_SDO_ABORT && V_FRM.Data[4] == 0x01"), timeout=900, cost=50, object_bits=11),
 _g("sdo_reset", "COSdoReset", "COSdoReset(V_NODE.Sdo, (uint8_t)H_A16, &V_NODE)", []),
 _g("sdo_enable", "COSdoEnable", "COSdoEnable(V_NODE.Sdo, (uint8_t)H_A16)", ["CODictRdLong"], R("a", "(uint8_t)H_A16 < CO_SSDO_N && V_NODE.Sdo[(uint8_t)H_A16].RxId == 0x601")),
 _g("sdo_init", "COSdoInit", "COSdoInit(V_NODE.Sdo, &V_NODE)", ["COSdoReset", "COSdoEnable"]),
 _g("sdo_getsize", "COSdoGetSize", "uint32_t r = COSdoGetSize(%s, H_A32, H_AB)" % SRVP, ["COObjGetSize", "COSdoAbort"],
    R("a", "r > 4") + R("b", "r == 0 && V_FRM.Data[4] == 0x13")),
]

# ---- two SDO servers (CO_SSDO_N = 2): every step of server G_N (either one) leaves the other server untouched (C02, independence) ----
import copy as _copy
_N2 = []
for _g0 in GROUPS:
    if _g0.get("form") == "explicit" or _g0["name"] in ("sdo_response", "sdo_init", "sdo_getobject", "sdo_ul_blk_init"):
        continue
    _g2 = _copy.deepcopy(_g0)
    _g2["name"] = _g0["name"] + "_N2"
    _g2["defs"] = _g2["defs"] + ["CO_SSDO_N=2"]
    _g2["props"] = {"C02": "thorough", "C01": "thorough", "C04": "thorough"}
    _g2["timeout"] = 900
    _N2.append(_g2)
GROUPS += _N2
