def _c(name, fn, op, tu, props, extra=None):
    return dict(name=name, fn=fn, form="explicit", harness="commtype_fn.c", static_tu=tu, defs=["VW_OP=%d" % op], nondet_static=True,
                tus=["object/basic/co_integer8.c", "object/basic/co_integer16.c", "object/basic/co_integer32.c", "core/co_nmt.c"] + (extra or []),
                loop_tus={}, unwind_all=9, reach=["post", "a", "b"], props=props, timeout=600, cost=10, object_bits=10)
_S = {"C16": "quick", "C01": "quick"}
_H = {"C10": "quick", "C01": "quick"}
GROUPS = [
 _c("sync_id_write", "COTSyncIdWrite/COSyncProdActivate/Deactivate", 0, "object/cia301/co_sync_id.c", _S),
 _c("sync_cycle_write", "COTSyncCycleWrite", 1, "object/cia301/co_sync_cycle.c", _S, ["object/cia301/co_sync_id.c"]),
 _c("sync_id_init", "COTSyncIdInit", 2, "object/cia301/co_sync_id.c", dict(_S, C20="quick")),
 _c("hb_prod_write", "COTNmtHbProdWrite", 3, "object/cia301/co_hb_prod.c", _H),
 _c("hb_prod_init", "COTNmtHbProdInit", 4, "object/cia301/co_hb_prod.c", dict(_H, C20="quick")),
 _c("hb_prod_send", "CONmtHbProdSend", 5, "object/cia301/co_hb_prod.c", dict(_H, C09="quick")),
]
