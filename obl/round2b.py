# Size / Read / Init of the communication-parameter object types: the type-function contract that the object layer assumes
_INT = ["object/basic/co_integer8.c", "object/basic/co_integer16.c", "object/basic/co_integer32.c"]
def _t(name, ty, tu, w, w0, rd, init_ok, props, reach):
    defs = ["VW_TY=%s" % ty, "VW_W=%du" % w, "VW_W0=%du" % w0, "VW_RD=%d" % rd] + (["VW_INIT_OK(idx,sub)=(%s)" % init_ok] if init_ok else [])
    return dict(name=name, fn="%sSize/%sRead%s" % (ty, ty, ("/%sInit" % ty) if init_ok else ""), form="explicit", harness="type_sri.c", static_tu="object/cia301/%s" % tu, tus=_INT, loop_tus={},
                defs=defs, nondet_static=True, unwind_all=5, reach=["post"] + reach, props=props, timeout=300, cost=3, object_bits=10)
_PD = "((idx)>=0x%xu&&(idx)<=0x%xu&&%s)||((idx)>=0x%xu&&(idx)<=0x%xu&&%s)"
GROUPS = [
 _t("type_pdo_id", "COTPdoId", "co_pdo_id.c", 4, 4, 0, _PD % (0x1400, 0x15FF, "(sub)==1", 0x1800, 0x19FF, "(sub)==1"), {"C14": "quick", "C06": "quick", "C01": "quick"}, ["a", "b", "c"]),
 _t("type_pdo_type", "COTPdoType", "co_pdo_type.c", 1, 1, 0, _PD % (0x1400, 0x15FF, "(sub)==2", 0x1800, 0x19FF, "(sub)==2"), {"C14": "quick", "C06": "quick", "C01": "quick"}, ["a", "c"]),
 _t("type_pdo_event", "COTPdoEvent", "co_pdo_event.c", 2, 2, 0, "(idx)>=0x1800u&&(idx)<=0x19FFu&&(sub)==5", {"C14": "quick", "C12": "quick", "C06": "quick", "C01": "quick"}, ["a", "b", "c"]),
 _t("type_pdo_map", "COTPdoMap", "co_pdo_map.c", 4, 4, 0, _PD % (0x1600, 0x17FF, "(sub)>0", 0x1A00, 0x1BFF, "(sub)>0"), {"C14": "quick", "C06": "quick", "C01": "quick"}, ["a", "b", "c"]),
 _t("type_pdo_num", "COTPdoNum", "co_pdo_num.c", 1, 1, 0, _PD % (0x1600, 0x17FF, "(sub)==0", 0x1A00, 0x1BFF, "(sub)==0"), {"C14": "quick", "C06": "quick", "C01": "quick"}, ["a", "c"]),
 _t("type_sdo_id", "COTSdoId", "co_sdo_id.c", 4, 4, 0, "(idx)>=0x1200u&&(idx)<=0x12FFu&&((sub)==1||(sub)==2)", {"C04": "quick", "C06": "quick", "C01": "quick"}, ["a", "b", "c"]),
 _t("type_sync_cycle", "COTSyncCycle", "co_sync_cycle.c", 4, 4, 0, "(idx)==0x1006u&&(sub)==0", {"C16": "quick", "C06": "quick", "C01": "quick"}, ["a", "b", "c"]),
 _t("type_emcy_id", "COTEmcyId", "co_emcy_id.c", 4, 4, 0, "(idx)==0x1014u&&(sub)==0", {"C15": "quick", "C06": "quick", "C01": "quick"}, ["a", "b", "c"]),
 _t("type_para_store", "COTParaStore", "co_para_store.c", 4, 1, 1, None, {"C17": "quick", "C06": "quick", "C01": "quick"}, ["a", "b"]),
 _t("type_para_restore", "COTParaRestore", "co_para_restore.c", 4, 1, 2, "(idx)==0x1011u&&(sub)<=0x7Fu", {"C17": "quick", "C06": "quick", "C01": "quick"}, ["a", "b"]),
]
GROUPS += [
 _t("type_hb_prod", "COTNmtHbProd", "co_hb_prod.c", 2, 2, 0, None, {"C10": "quick", "C06": "quick", "C01": "quick"}, ["a", "b"]),
 _t("type_sync_id", "COTSyncId", "co_sync_id.c", 4, 4, 0, None, {"C16": "quick", "C06": "quick", "C01": "quick"}, ["a", "b"]),
 _t("type_emcy_hist_size", "COTEmcyHist", "co_emcy_hist.c", 4, 1, 0, None, {"C15": "quick", "C06": "quick", "C01": "quick"}, ["a", "b"]),
]
GROUPS[-1]["defs"].append("VW_SIZE_ONLY")      # Read / Write / Init of 1003h are the emcy_hist_* groups
GROUPS[-1]["fn"] = "COTEmcyHistSize"
