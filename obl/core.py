def _c(name, fn, op):
    return dict(name=name, fn=fn, form="explicit", harness="core_fn.c", tus=["core/co_core.c"], defs=["VW_OP=%d" % op], nondet_static=True, loop_tus={}, unwind_all=9,
                reach=["post", "a", "b"], props={"C20": "quick", "C01": "quick"}, timeout=600, cost=5, object_bits=10,
                nobody_ok=["COIfCanRead", "COSdoCheck", "COSdoResponse", "COIfCanSend", "COCSdoCheck", "COCSdoResponse", "CONmtCheck", "CONmtHbConsCheck", "CORPdoCheck", "CORPdoRx", "COSyncUpdate", "COSyncHandler", "COLssCheck", "COIfCanReceive", "CONodeParaLoad"])
GROUPS = [_c("core_init", "CONodeInit", 0), _c("core_start", "CONodeStart", 1), _c("core_stop", "CONodeStop", 2), _c("core_geterr", "CONodeGetErr", 3)]
GROUPS += [dict(name="hal_wrappers", fn="COIfCanSend/COIfCanRead/COIfCanEnable/COIfTimer*/COIfNvm*/COIfInit", form="explicit", harness="hal_fn.c",
                tus=["hal/co_if.c", "hal/co_if_can.c", "hal/co_if_timer.c", "hal/co_if_nvm.c"], defs=[], nondet_static=True, loop_tus={}, unwind_all=9,
                reach=["post", "a", "b"], props={"C01": "quick", "C09": "quick", "C17": "quick"}, timeout=600, cost=5, object_bits=10)]
def _i(name, fn, op, tu, tus, props):
    return dict(name=name, fn=fn, form="explicit", harness="idtype_fn.c", static_tu=tu, tus=tus, defs=["VW_OP=%d" % op], nondet_static=True, loop_tus={}, unwind_all=9,
                reach=["post", "a", "b"], props=props, timeout=600, cost=5, object_bits=10)
GROUPS += [_i("sdo_id_write", "COTSdoIdWrite", 0, "object/cia301/co_sdo_id.c", ["object/basic/co_integer32.c", "service/cia301/co_ssdo.c"], {"C01": "quick", "C04": "quick", "C05": "quick"}),
           _i("emcy_id_write", "COTEmcyIdWrite", 1, "object/cia301/co_emcy_id.c", ["object/basic/co_integer32.c"], {"C01": "quick", "C15": "quick"})]
def _r(name, fn, op, tus, static_tu=None):
    return dict(name=name, fn=fn, form="explicit", harness="reset_parts.c", tus=tus, static_tu=static_tu, defs=["VW_OP=%d" % op], nondet_static=True, loop_tus={}, unwind_all=9,
                reach=["post", "a", "b"], props={"C20": "quick", "C01": "quick"}, timeout=600, cost=5, object_bits=10)
GROUPS += [_r("sync_init", "COSyncInit", 0, ["service/cia301/co_sync.c"]), _r("lss_init", "COLssInit", 1, ["service/cia305/co_lss.c"]), _r("tmr_clear", "COTmrClear", 2, ["core/co_tmr.c"])]
