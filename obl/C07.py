def _t(name, fn, op, n, props, isr=False, **kw):
    d = dict(name=name, fn=fn, form="explicit", harness="tmr_fn.c", static_tu="core/co_tmr.c", tus=[], loop_tus={},
             defs=["VW_OP=%d" % op, "VW_TMR_N=%d" % n] + (["VW_ISR"] if isr else []), nondet_static=True,
             unwind_all=n + 1, mem_gb=30, reach=["post", "a", "b"], props=props, timeout=900, cost=30 * n, object_bits=10,
             bounded="timer pool of %d actions/events (arbitrary well-formed pre-state, all deltas/periods/ticks symbolic)%s" % (n, "; interrupt service injected at every lock/unlock" if isr else ""))
    d.update(kw)
    return d
GROUPS = []
for _n, _tier in ((2, "quick"), (3, "thorough")):
    for _op, _nm in ((0, "create"), (1, "delete"), (2, "service"), (3, "process")):
        if _n == 3 and _nm == "process":
            continue      # pool 3: the SAT checker runs out of memory (30 GB) - not registered
        GROUPS.append(_t("tmr%d_%s" % (_n, _nm), "COTmr" + _nm.capitalize(), _op, _n, {"C07": _tier, "C08": _tier, "C01": _tier,
                                                   # the heartbeat/SYNC producers are cyclic timer actions: their period is kept only if create/delete keep every other action's due time
                                                   "C10": (_tier if _nm in ("create", "delete") else "thorough")}))
    # (COTmrProcess under ANY subset of preemptions is not registered: every interrupt can add an iteration to its outer loop, the
    #  unwinding bound grows with the number of preemption points and cbmc needs > 30 min; the single-preemption group below stands for it)
    for _op, _nm in ((0, "create"), (1, "delete")):
        GROUPS.append(_t("tmr%d_isr_%s" % (_n, _nm), "COTmr" + _nm.capitalize(), _op, _n, {"C08": _tier}, isr=True))

# C08: COTmrProcess with exactly ONE preemption by the tick service at any lock/unlock boundary
GROUPS.append(_t("tmr2_isr1_process", "COTmrProcess", 3, 2, {"C08": "quick"}, isr=True,
                 bounded="timer pool of 2 actions/events (arbitrary well-formed pre-state); exactly one interrupt service at any one lock/unlock boundary"))
GROUPS[-1]["defs"] = GROUPS[-1]["defs"] + ["VW_ISR_ONCE"]
for _f, _u in ((300, 1000), (1500, 1000), (1000, 1000), (7, 10000), (10001, 10000), (48000000, 1000)):
    GROUPS.append(dict(name="tmr_conv_%d_%d" % (_f, _u), fn="COTmrGetTicks", form="explicit", harness="tmr_conv.c", tus=["core/co_tmr.c"], defs=["VW_FREQ=%du" % _f, "VW_UNIT=%du" % _u], nondet_static=True, loop_tus={}, unwind_all=3,
                       reach=["post", "a", "b"], props={"C07": "quick", "C01": "quick"}, timeout=600, cost=10, object_bits=10,
                       bounded="timer frequency %d Hz with time unit 1/%d s (one of 6 listed pairs: dividing, multiple, neither); every pair of 16-bit times" % (_f, _u),
                       nobody_ok=["COTmrLock", "COTmrUnlock", "COIfTimerStart", "COIfTimerStop", "COIfTimerReload", "COIfTimerDelay", "COIfTimerUpdate"]))
