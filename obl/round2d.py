import importlib.util, os
_spec = importlib.util.spec_from_file_location("C07", os.path.join(os.path.dirname(os.path.abspath(__file__)), "C07.py")); _m = importlib.util.module_from_spec(_spec); _spec.loader.exec_module(_m)
# COTmrService over a pool of 3 events with one action per event (reduced pre-state family, see harness/tmr_fn_s.c)
GROUPS = [_m._t("tmr3s_service", "COTmrService", 2, 3, {"C07": "quick", "C08": "quick", "C01": "quick"}, harness="tmr_fn_s.c",
                bounded="timer pool of 3 events, each used event owning exactly its own action (COTmrService does not look at action lists); all list orders, deltas, counter values symbolic")]
