import importlib.util, os
_spec = importlib.util.spec_from_file_location("C07", os.path.join(os.path.dirname(os.path.abspath(__file__)), "C07.py")); _m = importlib.util.module_from_spec(_spec); _spec.loader.exec_module(_m)
# COTmrService over a pool of 3 events with one action per event (reduced pre-state family, see harness/tmr_fn_s.c)
GROUPS = [_m._t("tmr3s_service", "COTmrService", 2, 3, {"C07": "quick", "C08": "quick", "C01": "quick"}, harness="tmr_fn_s.c",
                bounded="timer pool of 3 events, each used event owning exactly its own action (COTmrService does not look at action lists); all list orders, deltas, counter values symbolic")]
_spec = importlib.util.spec_from_file_location("C15", os.path.join(os.path.dirname(os.path.abspath(__file__)), "C15.py")); _m15 = importlib.util.module_from_spec(_spec); _spec.loader.exec_module(_m15)
# silent COEmcyReset (the NMT reset path) over a table that spans TWO status bytes (10 errors): seeded change C20_I2 skips across the byte boundary
_B10 = "build configuration CO_EMCY_N=10 errors = two status bytes (all tables, classes, states symbolic); silent reset only"
_Q3 = {"C15": "quick", "C20": "quick", "C01": "quick"}
# CaDiCaL decides these in about a minute; MiniSat does not finish the 8-error group with frames in 80 min
GROUPS += [_m15._e("emcy_reset_silent10", "COEmcyReset", 4, _m15._DV, ["a"], timeout=1500, object_bits=12, props=_Q3, defs=["VW_OP=4", "CO_EMCY_N=10", "VW_SILENT_ONLY"], unwind_all=11, bounded=_B10, sat="cadical"),
           _m15._e("emcy_reset8", "COEmcyReset", 4, _m15._DV, ["a"], timeout=1500, object_bits=12, props=_Q3, defs=["VW_OP=4", "CO_EMCY_N=8"], unwind_all=9, sat="cadical")]
GROUPS += [_m15._e("emcy_reset_silent16", "COEmcyReset", 4, _m15._DV, ["a"], timeout=1500, object_bits=12, props={"C15": "thorough", "C20": "thorough", "C01": "thorough"}, defs=["VW_OP=4", "CO_EMCY_N=16", "VW_SILENT_ONLY"], unwind_all=17, mem_gb=30,
                   bounded="build configuration CO_EMCY_N=16 errors (silent reset)", sat="cadical")]
