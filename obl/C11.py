def _h(name, fn, op):
    return dict(name=name, fn=fn, form="explicit", harness="hbc_fn.c", static_tu="object/cia301/co_hb_cons.c", defs=["VW_OP=%d" % op], nondet_static=True,
                tus=["object/basic/co_integer8.c", "core/co_nmt.c"], loop_tus={}, unwind_all=6, reach=["post", "a", "b"],
                props={"C11": "quick", "C01": "quick"}, timeout=600, cost=10, object_bits=10,
                bounded="consumer chain of <= 3 entries (arbitrary well-formed chain, all node ids, times, timers, counters symbolic)")
GROUPS = [_h("hbc_activate", "CONmtHbConsActivate", 0), _h("hbc_check", "CONmtHbConsCheck", 1), _h("hbc_monitor", "CONmtHbConsMonitor", 2),
          _h("hbc_getevents", "CONmtGetHbEvents", 3), _h("hbc_laststate", "CONmtLastHbState", 4)]
