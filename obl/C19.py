def _c(name, fn, op):
    return dict(name=name, fn=fn, form="explicit", harness="csdo_fn.c", static_tu="service/cia301/co_csdo.c", defs=["VW_OP=%d" % op], nondet_static=True,
                tus=[], loop_tus={}, unwind_all=9, reach=["post", "a", "b"],
                props={"C19": "quick", "C01": "quick"}, timeout=900, cost=20, object_bits=10)
GROUPS = [_c("csdo_req_upload", "COCSdoRequestUpload", 0), _c("csdo_req_download", "COCSdoRequestDownload", 1), _c("csdo_response", "COCSdoCheck/COCSdoResponse", 2),
          _c("csdo_timeout", "COCSdoTimeout", 3), _c("csdo_init", "COCSdoInit", 4), _c("csdo_find", "COCSdoFind", 5)]
