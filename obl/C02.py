def _d(name, fn, op, props):
    return dict(name=name, fn=fn, form="explicit", harness="sdo_data.c", tus=["service/cia301/co_ssdo.c"], defs=["VW_OP=%d" % op], nondet_static=True,
                loop_tus={}, unwind_all=9, reach=["post", "a", "b"], props=props, timeout=900, cost=15, object_bits=10)
_DL = {"C02": "quick", "C01": "quick"}
_UL = {"C03": "quick", "C01": "quick"}
GROUPS = [_d("sdod_dl_exp", "COSdoDownloadExpedited", 0, _DL), _d("sdod_dl_seg_init", "COSdoInitDownloadSegmented", 1, _DL), _d("sdod_dl_seg", "COSdoDownloadSegmented", 2, _DL),
          _d("sdod_dl_blk_init", "COSdoInitDownloadBlock", 3, _DL), _d("sdod_dl_blk", "COSdoDownloadBlock", 4, _DL), _d("sdod_dl_blk_end", "COSdoEndDownloadBlock", 5, _DL),
          _d("sdod_ul_exp", "COSdoUploadExpedited", 6, _UL), _d("sdod_ul_seg_init", "COSdoInitUploadSegmented", 7, _UL), _d("sdod_ul_seg", "COSdoUploadSegmented", 8, _UL)]

def _u(name, fn, op, reach, n, tier):
    return dict(name=name, fn=fn, form="explicit", harness="sdo_ulb_data.c", tus=["service/cia301/co_ssdo.c"], defs=["VW_OP=%d" % op, "VW_BLK_MAX=%d" % n], nondet_static=True,
                loop_tus={}, unwind_all=9, unwind={"COSdoUploadBlock.0": 7 * n + 1, "COSdoUploadBlock.6": n + 1}, reach=["post"] + reach, props={"C03": tier, "C01": tier}, timeout=1800, cost=40 * n, object_bits=10, mem_gb=20,
                bounded="block size <= %d segments (object size, position, acknowledge position, history unbounded)" % n)
GROUPS += [_u("sdod_ulb_start2", "COSdoUploadBlock", 0, [], 2, "quick"), _u("sdod_ulb_ack2", "COSdoAckUploadBlock", 1, ["a", "b", "c"], 2, "quick"),
           _u("sdod_ulb_start3", "COSdoUploadBlock", 0, [], 3, "thorough"), _u("sdod_ulb_ack3", "COSdoAckUploadBlock", 1, ["a", "b", "c"], 3, "thorough"),
           _u("sdod_ulb_start6", "COSdoUploadBlock", 0, [], 6, "thorough"), _u("sdod_ulb_ack6", "COSdoAckUploadBlock", 1, ["a", "b", "c"], 6, "thorough")]
