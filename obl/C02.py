def _d(name, fn, op, props):
    return dict(name=name, fn=fn, form="explicit", harness="sdo_data.c", tus=["service/cia301/co_ssdo.c"], defs=["VW_OP=%d" % op], nondet_static=True,
                loop_tus={}, unwind_all=9, reach=["post", "a", "b"], props=props, timeout=900, cost=15, object_bits=10)
_DL = {"C02": "quick", "C01": "quick"}
_UL = {"C03": "quick", "C01": "quick"}
GROUPS = [_d("sdod_dl_exp", "COSdoDownloadExpedited", 0, _DL), _d("sdod_dl_seg_init", "COSdoInitDownloadSegmented", 1, _DL), _d("sdod_dl_seg", "COSdoDownloadSegmented", 2, _DL),
          _d("sdod_dl_blk_init", "COSdoInitDownloadBlock", 3, _DL), _d("sdod_dl_blk", "COSdoDownloadBlock", 4, _DL), _d("sdod_dl_blk_end", "COSdoEndDownloadBlock", 5, _DL),
          _d("sdod_ul_exp", "COSdoUploadExpedited", 6, _UL), _d("sdod_ul_seg_init", "COSdoInitUploadSegmented", 7, _UL), _d("sdod_ul_seg", "COSdoUploadSegmented", 8, _UL)]
