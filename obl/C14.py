def _t(name, fn, op, tu, props=None):
    return dict(name=name, fn=fn, form="explicit", harness="pdotype_fn.c", static_tu=tu, defs=["VW_OP=%d" % op], nondet_static=True,
                tus=["object/basic/co_integer8.c", "object/basic/co_integer16.c", "object/basic/co_integer32.c"],
                loop_tus={}, unwind_all=9, reach=["post", "a", "b"], props=props or {"C14": "quick", "C01": "quick"}, timeout=600, cost=10, object_bits=10)
GROUPS = [
 _t("pdo_id_write", "COTPdoIdWrite", 0, "object/cia301/co_pdo_id.c"),
 _t("pdo_map_write", "COTPdoMapWrite", 1, "object/cia301/co_pdo_map.c"),
 _t("pdo_num_write", "COTPdoNumWrite", 2, "object/cia301/co_pdo_num.c"),
 _t("pdo_type_write", "COTPdoTypeWrite", 3, "object/cia301/co_pdo_type.c"),
 _t("pdo_event_write", "COTPdoEventWrite", 4, "object/cia301/co_pdo_event.c", {"C14": "quick", "C12": "quick", "C10": "quick", "C01": "quick"}),
]
