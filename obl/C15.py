def _e(name, fn, op, repl, reach, **kw):
    d = dict(name=name, enforce=fn, harness="emcy_fn.c", tus=["service/cia301/co_emcy.c"], defs=["VW_OP=%d" % op, "CO_EMCY_N=8"], nondet_static=True,
             replace=repl, reach=["post"] + reach, unwind_all=9, props={"C15": "quick", "C01": "quick"}, timeout=600, cost=20, object_bits=10,
             bounded="build configuration CO_EMCY_N=8 errors (all tables, classes, codes, states symbolic); counting invariants over 32 errors are intractable for SAT")
    d.update(kw)
    return d
_DV = ["CODictRdByte", "CODictWrByte", "CODictRdLong", "COIfCanSend"]
GROUPS = [
 _e("emcy_set", "COEmcySet", 0, _DV + ["COEmcyHistAdd"], ["a", "b"]),
 _e("emcy_clr", "COEmcyClr", 1, _DV, ["a", "b"]),
 _e("emcy_get", "COEmcyGet", 2, [], []),
 _e("emcy_cnt", "COEmcyCnt", 3, [], ["a"]),
 _e("emcy_reset", "COEmcyReset", 4, _DV, ["a"], timeout=1200, object_bits=12, props={"C15": "thorough", "C01": "thorough"}),
]

def _h(name, fn, op):
    return dict(name=name, fn=fn, form="explicit", harness="emcy_hist.c", static_tu="object/cia301/co_emcy_hist.c", defs=["VW_OP=%d" % op], nondet_static=True,
                tus=["object/basic/co_integer8.c", "object/basic/co_integer32.c"], loop_tus={}, unwind_all=11, reach=["post", "a", "b"],
                props={"C15": "quick", "C01": "quick"}, timeout=600, cost=10, object_bits=10, bounded="history depth <= 8 entries (the depth range of the property; offsets, counts, values symbolic)")
GROUPS += [_h("emcy_hist_add", "COEmcyHistAdd", 0), _h("emcy_hist_reset", "COEmcyHistReset", 1), _h("emcy_hist_read", "COTEmcyHistRead", 2),
           _h("emcy_hist_write", "COTEmcyHistWrite", 3), _h("emcy_hist_init", "COTEmcyHistInit", 4)]
