def _e(name, fn, op, repl, reach, **kw):
    d = dict(name=name, enforce=fn, harness="emcy_fn.c", tus=["service/cia301/co_emcy.c"], defs=["VW_OP=%d" % op, "CO_EMCY_N=8"], nondet_static=True,
             replace=repl, reach=["post"] + reach, unwind_all=9, props={"C15": "quick", "C01": "quick"}, timeout=600, cost=20, object_bits=10, sat="cadical",
             bounded="build configuration CO_EMCY_N=8 errors (all tables, classes, codes, states symbolic); counting invariants over 32 errors are intractable for SAT")
    d.update(kw)
    return d
_DV = ["CODictRdByte", "CODictWrByte", "CODictRdLong", "COIfCanSend"]
_B5 = "build configuration CO_EMCY_N=5 errors (all tables, classes, codes, states symbolic); the 8-error configuration is the thorough group of the same name without suffix"
_T = {"C15": "thorough", "C01": "thorough"}
_Q = {"C15": "quick", "C01": "quick"}
_T20 = {"C15": "thorough", "C01": "thorough", "C20": "thorough"}
_Q20 = {"C15": "quick", "C01": "quick", "C20": "quick"}
def _n5(op, extra=()):
    return ["VW_OP=%d" % op, "CO_EMCY_N=5"] + list(extra)
GROUPS = [
 _e("emcy_set", "COEmcySet", 0, _DV + ["COEmcyHistAdd"], ["a", "b"], props=_Q),
 _e("emcy_clr", "COEmcyClr", 1, _DV, ["a", "b"], props=_Q),
 _e("emcy_get", "COEmcyGet", 2, [], [], props=_Q),
 _e("emcy_cnt", "COEmcyCnt", 3, [], ["a"], props=_Q),
# SAT solver CaDiCaL (cbmc --sat-solver cadical): the five 8-error groups take 80 s together; with MiniSat they were thorough-only and
# COEmcyReset with 8 errors and frames did not finish within 80 min (now group emcy_reset8 in round2d.py).  The 5-error stand-ins are gone.
 _e("emcy_reset_silent", "COEmcyReset", 4, _DV, ["a"], timeout=1200, object_bits=12, props=_Q20, defs=["VW_OP=4", "CO_EMCY_N=8", "VW_SILENT_ONLY"]),
]

def _h(name, fn, op):
    return dict(name=name, fn=fn, form="explicit", harness="emcy_hist.c", static_tu="object/cia301/co_emcy_hist.c", defs=["VW_OP=%d" % op], nondet_static=True,
                tus=["object/basic/co_integer8.c", "object/basic/co_integer32.c"], loop_tus={}, unwind_all=11, reach=["post", "a", "b"],
                props={"C15": "quick", "C01": "quick"}, timeout=600, cost=10, object_bits=10, bounded="history depth <= 8 entries (the depth range of the property; offsets, counts, values symbolic)")
GROUPS += [_h("emcy_hist_add", "COEmcyHistAdd", 0), _h("emcy_hist_reset", "COEmcyHistReset", 1), _h("emcy_hist_read", "COTEmcyHistRead", 2),
           _h("emcy_hist_write", "COTEmcyHistWrite", 3), _h("emcy_hist_init", "COTEmcyHistInit", 4)]
