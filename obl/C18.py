_LSS_TUS = ["service/cia305/co_lss.c", "core/co_dict.c", "core/co_obj.c", "object/basic/co_integer8.c",
            "object/basic/co_integer16.c", "object/basic/co_integer32.c"]
_LSS_REPL = ["COLssStore", "CONmtSetMode", "CONmtGetNodeId", "COIfCanClose", "COTmrGetTicks", "COTmrCreate"]
_LSS_REACH = ["post", "selected", "identified", "stored", "inquired", "notlss"]
GROUPS = [
 # D-abs: typed reads of 1018h replaced by the dictionary value view (all dictionaries)
 dict(name="lss_check", enforce="COLssCheck", harness="lss_check.c", tus=["service/cia305/co_lss.c"], nondet_static=True,
      replace=_LSS_REPL + ["CODictRdLong"], unwind={"COLssCheck.0": 22}, reach=_LSS_REACH,
      props={"C18": "quick", "C01": "quick"}, timeout=600, cost=30),
 # D-lay: the real dictionary/object/integer code inline over a concrete-layout dictionary
 dict(name="lss_check_dlay", enforce="COLssCheck", harness="lss_check.c", tus=_LSS_TUS, defs=["VW_DN=4", "VW_DLAY"], nondet_static=True,
      replace=_LSS_REPL, unwind={"COLssCheck.0": 22, "CODictFind.0": 4, "COObjTypeUserSDOAbort.0": 3}, reach=_LSS_REACH,
      bounded="dictionary layout of <= 4 entries (identity object present/partial/absent, all values symbolic)",
      props={"C18": "thorough"}, timeout=900, cost=60),
]
