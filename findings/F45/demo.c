/* F45 (C10): COTNmtHbProdSize reports size 0 whenever obj->Data == 0 - for a DIRECTLY stored heartbeat time (CO_OBJ_D___RW)
 * that is the value 0, not a missing reference.  Once the producer heartbeat time 1017h is 0 (configured so, or after a client
 * wrote 0 to stop the heartbeat) every further SDO access to 1017h is refused: the heartbeat can never be started again.
 * Exit 1 = defect present. */
#include "../common.h"
static CO_OBJ dict[] = {
    { CO_KEY(0x1017, 0, CO_OBJ_D___RW), CO_THB_PROD, (CO_DATA)100 },
    { CO_KEY(0x1200, 0, CO_OBJ_D___R_), CO_TUNSIGNED8, (CO_DATA)2 },
    { CO_KEY(0x1200, 1, CO_OBJ_DN__R_), CO_TUNSIGNED32, (CO_DATA)0x600 },
    { CO_KEY(0x1200, 2, CO_OBJ_DN__R_), CO_TUNSIGNED32, (CO_DATA)0x580 },
    CO_OBJ_DICT_ENDMARK
};
static int count_hb(int from) { int n = 0, k; for (k = from; k < txn; k++) if (txlog[k].Identifier == 0x701 && txlog[k].DLC == 1) n++; return n; }
static void show(const char *what) { CO_IF_FRM *f = &txlog[txn - 1]; printf("%s: %02X", what, f->Data[0]); if (f->Data[0] == 0x80) printf(" abort %02X%02X%02X%02Xh", f->Data[7], f->Data[6], f->Data[5], f->Data[4]); printf("\n"); }
int main(void)
{
    int t0, n, bad = 0;
    node_up(dict, 5, 1, 1000);
    t0 = txn; tick(1000); n = count_hb(t0); printf("1017h = 100 ms: %d heartbeats in 1000 ms (expected 10)\n", n); if (n != 10) bad = 1;
    rx(0x601, 8, 0x2B, 0x17, 0x10, 0x00, 0x00, 0x00, 0, 0); show("write 1017h := 0 (stop)"); if (txlog[txn - 1].Data[0] != 0x60) bad = 1;
    t0 = txn; tick(1000); n = count_hb(t0); printf("stopped: %d heartbeats in 1000 ms (expected 0)\n", n); if (n != 0) bad = 1;
    rx(0x601, 8, 0x2B, 0x17, 0x10, 0x00, 0x32, 0x00, 0, 0); show("write 1017h := 50 ms (restart)"); if (txlog[txn - 1].Data[0] != 0x60) bad = 1;
    t0 = txn; tick(1000); n = count_hb(t0); printf("restarted: %d heartbeats in 1000 ms (expected 20)\n", n); if (n != 20) bad = 1;
    rx(0x601, 8, 0x40, 0x17, 0x10, 0x00, 0, 0, 0, 0); show("read 1017h");
    return bad;
}
