/* F34 (C19): the segment width of a segmented download is kept in 8 bits (width = Size - Buf_Idx): a download of 263
 * bytes has 263 mod 256 = 7 <= 7 "remaining" bytes at its first segment, which is therefore marked as the last one
 * (c = 1): the server receives 7 of 263 bytes.  A reference server loop counts the bytes.  Exit 1 = defect present. */
#include "../common.h"
static uint32_t tx1 = 0x600, rx1 = 0x580; static uint8_t sid = 2;
static CO_OBJ dict[] = {
    { CO_KEY(0x1280, 1, CO_OBJ_____RW), CO_TUNSIGNED32, (CO_DATA)&tx1 },
    { CO_KEY(0x1280, 2, CO_OBJ_____RW), CO_TUNSIGNED32, (CO_DATA)&rx1 },
    { CO_KEY(0x1280, 3, CO_OBJ_____RW), CO_TUNSIGNED8, (CO_DATA)&sid },
    CO_OBJ_DICT_ENDMARK
};
static int ncb; static uint32_t code;
static void cb(CO_CSDO *c, uint16_t i, uint8_t s, uint32_t co) { (void)c; (void)i; (void)s; ncb++; code = co; }
int main(void)
{
    static uint8_t data[263], got[600]; int n = 0, seen = 0, last = 0, k;
    for (k = 0; k < 263; k++) data[k] = (uint8_t)(k * 7 + 1);
    node_up(dict, 4, 1, 1000);
    CO_CSDO *c = COCSdoFind(&node, 0); int base = txn;
    COCSdoRequestDownload(c, CO_DEV(0x2000, 1), data, 263, cb, 1000);
    /* reference server: confirm the initiate, then every segment until c = 1 */
    rx(0x582, 8, 0x60, 0x00, 0x20, 0x01, 0, 0, 0, 0);
    seen = base + 1;                                     /* txlog[0] = initiate, txlog[1] = first segment */
    while (!last && seen < txn && seen < base + 100) {
        CO_IF_FRM *f = &txlog[seen++]; int w = 7 - ((f->Data[0] >> 1) & 7);
        for (k = 0; k < w; k++) got[n++] = f->Data[1 + k];
        last = f->Data[0] & 1;
        rx(0x582, 8, 0x20 | (f->Data[0] & 0x10), 0, 0, 0, 0, 0, 0, 0);
    }
    printf("announced %u, server received %d bytes in %d segments, callback %d code %08x\n", (unsigned)(txlog[base].Data[4] | txlog[base].Data[5] << 8), n, seen - base - 1, ncb, code);
    return !(n == 263 && memcmp(got, data, 263) == 0 && ncb == 1 && code == 0);
}
