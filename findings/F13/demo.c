/* F13/F20 (C10, C12, C01): COTPdoEventWrite (1800h+n:5).  (a) it deletes the TPDO's event and inhibit actions but
 * keeps their ids and the inhibit flag: the TPDO stays inhibited for ever (no further transmission), and the stale
 * ids are deleted again later - by then they may belong to another action (e.g. the heartbeat producer).
 * (b) num = index & 1FFh is not checked against CO_TPDO_N: a write to 1804h:5 accesses TPdo[4] behind the array.
 * Exit 1 / sanitizer = defect present. */
#include "../common.h"
static uint8_t a = 1, n = 1, t = 254; static uint16_t inh = 100, ev = 0, ev4 = 0, hb = 0; static uint32_t id = 0x40000181, m1 = CO_LINK(0x2000, 0, 8);
static CO_OBJ dict[] = {
    { CO_KEY(0x1017, 0, CO_OBJ_____RW), CO_THB_PROD,    (CO_DATA)&hb },
    { CO_KEY(0x1200, 1, CO_OBJ_DN__R_), CO_TUNSIGNED32, (CO_DATA)0x600 },
    { CO_KEY(0x1200, 2, CO_OBJ_DN__R_), CO_TUNSIGNED32, (CO_DATA)0x580 },
    { CO_KEY(0x1800, 0, CO_OBJ_D___R_), CO_TUNSIGNED8,  (CO_DATA)5 },
    { CO_KEY(0x1800, 1, CO_OBJ_____RW), CO_TPDO_ID,     (CO_DATA)&id },
    { CO_KEY(0x1800, 2, CO_OBJ_____RW), CO_TPDO_TYPE,   (CO_DATA)&t },
    { CO_KEY(0x1800, 3, CO_OBJ_____RW), CO_TUNSIGNED16, (CO_DATA)&inh },
    { CO_KEY(0x1800, 5, CO_OBJ_____RW), CO_TPDO_EVENT,  (CO_DATA)&ev },
    { CO_KEY(0x1804, 5, CO_OBJ_____RW), CO_TPDO_EVENT,  (CO_DATA)&ev4 },
    { CO_KEY(0x1A00, 0, CO_OBJ_____RW), CO_TPDO_NUM,    (CO_DATA)&n },
    { CO_KEY(0x1A00, 1, CO_OBJ_____RW), CO_TPDO_MAP,    (CO_DATA)&m1 },
    { CO_KEY(0x2000, 0, CO_OBJ____PRW), CO_TUNSIGNED8,  (CO_DATA)&a },
    CO_OBJ_DICT_ENDMARK
};
int main(int argc, char **argv)
{
    node_up(dict, 13, 1, 1000);
    rx(0, 2, 1, 1, 0, 0, 0, 0, 0, 0);
    if (argc > 1) { rx(0x601, 8, 0x2B, 0x04, 0x18, 5, 10, 0, 0, 0); printf("(b) wrote 1804h:5\n"); return 0; }
    txn = 0; COTPdoTrigPdo(node.TPdo, 0);                       /* sent, inhibit time (10 ms) starts */
    rx(0x601, 8, 0x2B, 0x00, 0x18, 5, 0, 0, 0, 0);              /* SDO write 1800h:5 = 0 while the inhibit time runs */
    tick(50); txn = 0;
    COTPdoTrigPdo(node.TPdo, 0); tick(50);
    printf("(a) TPDO transmissions after the event-time write: %d (expected 1), inhibit flag %u, InTmr %d\n", txn, node.TPdo[0].Flags & 2, node.TPdo[0].InTmr);
    return txn != 1;
}
