/* F43 (C16, C07): COTmrGetMinTime rounds the length of one timer tick DOWN (unit / freq).  For a tick frequency that does not
 * divide the time unit (300 Hz: one tick = 33.3 units of 100 us) the "minimal time" 33 is shorter than a tick and converts to
 * 0 ticks.  COSyncProdActivate uses it to refuse SYNC periods the timer cannot resolve: a period of 3300 us passes the check,
 * converts to 0 ticks, no timer can be created - the SDO write to 1006h is CONFIRMED, the previous period is lost and the
 * node silently stops producing SYNC, instead of refusing the write (0609 0030h) and keeping the old period.
 * Exit 1 = defect present. */
#include "../common.h"
static CO_OBJ dict[] = {
    { CO_KEY(0x1005, 0, CO_OBJ_D___RW), CO_TSYNC_ID, (CO_DATA)0x40000080 },
    { CO_KEY(0x1006, 0, CO_OBJ_D___RW), CO_TSYNC_CYCLE, (CO_DATA)10000 },
    { CO_KEY(0x1200, 0, CO_OBJ_D___R_), CO_TUNSIGNED8, (CO_DATA)2 },
    { CO_KEY(0x1200, 1, CO_OBJ_DN__R_), CO_TUNSIGNED32, (CO_DATA)0x600 },
    { CO_KEY(0x1200, 2, CO_OBJ_DN__R_), CO_TUNSIGNED32, (CO_DATA)0x580 },
    CO_OBJ_DICT_ENDMARK
};
static int count_sync(int from) { int n = 0, k; for (k = from; k < txn; k++) if (txlog[k].Identifier == 0x80 && txlog[k].DLC == 0) n++; return n; }
int main(void)
{
    int t0, n, bad = 0; uint32_t v = 0;
    node_up(dict, 6, 1, 300);                      /* 300 Hz tick: 3.33 ms */
    t0 = txn; tick(300); n = count_sync(t0);
    printf("1006h = 10000 us at 300 Hz: %d SYNC frames in 300 ticks (expected 100)\n", n); if (n != 100) bad = 1;
    t0 = txn; rx(0x601, 8, 0x23, 0x06, 0x10, 0x00, 0xE4, 0x0C, 0x00, 0x00);      /* 1006h := 3300 us = 0.99 tick */
    printf("write 1006h := 3300 us: response %02X", txlog[txn - 1].Data[0]);
    if (txlog[txn - 1].Data[0] == 0x80) printf(" abort %02X%02X%02X%02Xh\n", txlog[txn - 1].Data[7], txlog[txn - 1].Data[6], txlog[txn - 1].Data[5], txlog[txn - 1].Data[4]); else printf(" (confirmed)\n");
    CODictRdLong(&node.Dict, CO_DEV(0x1006, 0), &v);
    t0 = txn; tick(300); n = count_sync(t0);
    printf("afterwards: 1006h = %u us, %d SYNC frames in 300 ticks\n", (unsigned)v, n);
    if (txlog[t0 - 1].Data[0] != 0x80 || v != 10000 || n != 100) { printf("a period the timer cannot resolve must be refused (0609 0030h) with the previous period kept and produced\n"); bad = 1; }
    return bad;
}
