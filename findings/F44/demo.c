/* F44 (C01, C06): COTParaStoreRead / COTParaRestoreRead store 4 bytes through the caller's buffer whatever `size` says.
 * A buffer read of fewer than 4 bytes from 1010h:k / 1011h:k (CODictRdBuffer with a 2 byte buffer - "buffer reads move exactly
 * the number of bytes requested, limited by the object's size") writes behind the caller's buffer.
 * Built with AddressSanitizer: exit 1 / ASan report = defect present. */
#include "../common.h"
#include <stdlib.h>
static uint8_t mem[4];
static CO_PARA pg = { 0, 4, mem, NULL, CO_RESET_NODE, NULL, CO_PARA___E };
static CO_OBJ dict[] = {
    { CO_KEY(0x1010, 0, CO_OBJ_D___R_), CO_TUNSIGNED8, (CO_DATA)1 },
    { CO_KEY(0x1010, 1, CO_OBJ_____RW), CO_TPARA_STORE, (CO_DATA)&pg },
    { CO_KEY(0x1011, 0, CO_OBJ_D___R_), CO_TUNSIGNED8, (CO_DATA)1 },
    { CO_KEY(0x1011, 1, CO_OBJ_____RW), CO_TPARA_RESTORE, (CO_DATA)&pg },
    CO_OBJ_DICT_ENDMARK
};
int main(void)
{
    uint8_t *two = malloc(2); uint8_t guard[8]; CO_ERR e; int bad = 0;
    node_up(dict, 5, 1, 1000);
    memset(guard, 0xEE, sizeof(guard));
    e = CODictRdBuffer(&node.Dict, CO_DEV(0x1010, 1), guard, 2);       /* stack variant: bytes 2..3 must stay EEh */
    printf("CODictRdBuffer(1010h:1, 2 bytes) = %d, buffer afterwards %02X %02X | %02X %02X\n", (int)e, guard[0], guard[1], guard[2], guard[3]);
    if (guard[2] != 0xEE || guard[3] != 0xEE) { printf("bytes behind the requested length were overwritten\n"); bad = 1; }
    e = CODictRdBuffer(&node.Dict, CO_DEV(0x1011, 1), two, 2);         /* heap variant: ASan reports the overflow */
    printf("CODictRdBuffer(1011h:1, 2 bytes) = %d\n", (int)e);
    free(two);
    return bad;
}
