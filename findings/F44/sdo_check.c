/* companion of F44: with the repair an SDO upload of 1010h:1 / 1011h:1 still delivers the 4-byte value (exit 0) */
#include "../common.h"
static uint8_t mem[4];
static CO_PARA pg = { 0, 4, mem, mem, CO_RESET_NODE, NULL, CO_PARA___E };
static CO_OBJ dict[] = {
    { CO_KEY(0x1010, 0, CO_OBJ_D___R_), CO_TUNSIGNED8, (CO_DATA)1 },
    { CO_KEY(0x1010, 1, CO_OBJ_____RW), CO_TPARA_STORE, (CO_DATA)&pg },
    { CO_KEY(0x1011, 0, CO_OBJ_D___R_), CO_TUNSIGNED8, (CO_DATA)1 },
    { CO_KEY(0x1011, 1, CO_OBJ_____RW), CO_TPARA_RESTORE, (CO_DATA)&pg },
    { CO_KEY(0x1200, 0, CO_OBJ_D___R_), CO_TUNSIGNED8, (CO_DATA)2 },
    { CO_KEY(0x1200, 1, CO_OBJ_DN__R_), CO_TUNSIGNED32, (CO_DATA)0x600 },
    { CO_KEY(0x1200, 2, CO_OBJ_DN__R_), CO_TUNSIGNED32, (CO_DATA)0x580 },
    CO_OBJ_DICT_ENDMARK
};
int main(void)
{
    int bad = 0; uint32_t v = 0;
    node_up(dict, 8, 1, 1000);
    rx(0x601, 8, 0x40, 0x10, 0x10, 0x01, 0, 0, 0, 0);
    printf("upload 1010h:1: %02X %02X%02X%02X%02X\n", txlog[txn-1].Data[0], txlog[txn-1].Data[7], txlog[txn-1].Data[6], txlog[txn-1].Data[5], txlog[txn-1].Data[4]);
    if (txlog[txn-1].Data[0] != 0x43 || txlog[txn-1].Data[4] != CO_PARA___E) bad = 1;
    rx(0x601, 8, 0x40, 0x11, 0x10, 0x01, 0, 0, 0, 0);
    printf("upload 1011h:1: %02X %02X%02X%02X%02X\n", txlog[txn-1].Data[0], txlog[txn-1].Data[7], txlog[txn-1].Data[6], txlog[txn-1].Data[5], txlog[txn-1].Data[4]);
    if (txlog[txn-1].Data[0] != 0x43 || txlog[txn-1].Data[4] != 1) bad = 1;
    if (CODictRdLong(&node.Dict, CO_DEV(0x1010, 1), &v) != CO_ERR_NONE || v != CO_PARA___E) bad = 1;
    return bad;
}
