/* F41 (C12): COTPdoInit forgets running TPDO timers.  Entering OPERATIONAL runs COTPdoInit, which sets EvTmr/InTmr to -1
 * WITHOUT deleting the actions; nobody deletes them when OPERATIONAL is left either.  OPERATIONAL -> PRE-OPERATIONAL ->
 * OPERATIONAL within one event period leaves the old one-shot event action pending next to the new one: when it fires it
 * overwrites the id of the new action and starts a second chain - the TPDO is transmitted twice per event time from then on.
 * Exit 1 = defect present. */
#include "../common.h"
static uint8_t val = 0x5A;
static CO_OBJ dict[] = {
    { CO_KEY(0x1800, 0, CO_OBJ_D___R_), CO_TUNSIGNED8, (CO_DATA)5 },
    { CO_KEY(0x1800, 1, CO_OBJ_DN__R_), CO_TUNSIGNED32, (CO_DATA)0x40000180 },
    { CO_KEY(0x1800, 2, CO_OBJ_D___R_), CO_TUNSIGNED8, (CO_DATA)254 },
    { CO_KEY(0x1800, 3, CO_OBJ_D___R_), CO_TUNSIGNED16, (CO_DATA)0 },
    { CO_KEY(0x1800, 5, CO_OBJ_D___R_), CO_TUNSIGNED16, (CO_DATA)100 },
    { CO_KEY(0x1A00, 0, CO_OBJ_D___R_), CO_TUNSIGNED8, (CO_DATA)1 },
    { CO_KEY(0x1A00, 1, CO_OBJ_D___R_), CO_TUNSIGNED32, (CO_DATA)0x21000008 },
    { CO_KEY(0x2100, 0, CO_OBJ____PRW), CO_TUNSIGNED8, (CO_DATA)&val },
    CO_OBJ_DICT_ENDMARK
};
static int count_tpdo(int from) { int n = 0, k; for (k = from; k < txn; k++) if (txlog[k].Identifier == 0x181) n++; return n; }
int main(void)
{
    int t0, n;
    node_up(dict, 9, 1, 1000);
    rx(0x000, 2, 0x01, 0x01, 0, 0, 0, 0, 0, 0);      /* start */
    tick(50);
    rx(0x000, 2, 0x80, 0x01, 0, 0, 0, 0, 0, 0);      /* pre-operational */
    tick(10);
    rx(0x000, 2, 0x01, 0x01, 0, 0, 0, 0, 0, 0);      /* start again, 40 ms before the old event action is due */
    tick(200); t0 = txn;
    tick(1000);
    n = count_tpdo(t0);
    printf("TPDO with event time 100 ms: %d transmissions in 1000 ms (expected 10)\n", n);
    return !(n >= 9 && n <= 11);
}
