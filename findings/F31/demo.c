/* F31 (C12): COTPdoTx does not check that the TPDO's COB-ID is valid: COTPdoTrigPdo() for a TPDO that is
 * marked invalid (or does not exist in the dictionary) transmits a frame with identifier 80000000h. Exit 1 = defect. */
#include "../common.h"
static CO_OBJ dict[] = { { CO_KEY(0x1000, 0, CO_OBJ_D___R_), CO_TUNSIGNED32, (CO_DATA)0 }, CO_OBJ_DICT_ENDMARK };
int main(void)
{
    node_up(dict, 2, 1, 1000);
    rx(0, 2, 1, 1, 0, 0, 0, 0, 0, 0);      /* OPERATIONAL */
    txn = 0;
    COTPdoTrigPdo(node.TPdo, 2);           /* TPDO 3 is not configured */
    printf("frames sent for an invalid TPDO: %d\n", txn);
    return txn != 0;
}
