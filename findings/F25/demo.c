/* F25 (C18): COLssActivateBitTiming reuses the address-selection step variable (Step = 1 ==
 * "vendor matched").  After activate-bit-timing and a switch back to waiting state the slave
 * enters configuration state on product, revision, serial alone - no vendor frame ever arrived.
 * Found as failed obligation "invariant WF_LSS preserved" (group lss_check, cs 21). Exit 1 = defect. */
#include "../common.h"
static CO_OBJ dict[] = {
    { CO_KEY(0x1018, 1, CO_OBJ_D___R_), CO_TUNSIGNED32, (CO_DATA)0x11111111 },
    { CO_KEY(0x1018, 2, CO_OBJ_D___R_), CO_TUNSIGNED32, (CO_DATA)0x22222222 },
    { CO_KEY(0x1018, 3, CO_OBJ_D___R_), CO_TUNSIGNED32, (CO_DATA)0x33333333 },
    { CO_KEY(0x1018, 4, CO_OBJ_D___R_), CO_TUNSIGNED32, (CO_DATA)0x44444444 },
    CO_OBJ_DICT_ENDMARK
};
int main(void)
{
    node_up(dict, 5, 10, 1000);
    rx(0x7E5, 8, 4, 1, 0, 0, 0, 0, 0, 0);          /* switch state global: configuration */
    rx(0x7E5, 8, 21, 100, 0, 0, 0, 0, 0, 0);       /* activate bit timing, delay 100 ms  */
    rx(0x7E5, 8, 4, 0, 0, 0, 0, 0, 0, 0);          /* switch state global: waiting       */
    txn = 0;
    rx32(0x7E5, 65, 0x22222222);                   /* selective: product  (no vendor frame before!) */
    rx32(0x7E5, 66, 0x33333333);                   /* selective: revision */
    rx32(0x7E5, 67, 0x44444444);                   /* selective: serial   */
    printf("LSS mode after product,revision,serial without vendor: %u, responses: %d%s\n", node.Lss.Mode, txn,
           txn ? (txlog[0].Data[0] == 0x44 ? " (44h)" : "") : "");
    return (node.Lss.Mode == CO_LSS_CONF || txn > 0) ? 1 : 0;
}
