/* F15 (C20, C10, C16): NMT reset communication re-initialises the service structures but not the dictionary
 * objects that start the services (CODictObjInit runs from CONodeInit only).  After the reset the heartbeat
 * producer stays off although 1017h = 100 ms, the SYNC COB-ID 1005h is forgotten (Sync.CobId == 0) and the SYNC
 * producer timer is leaked.  KNOWN FINDING (not repaired: re-running the object initialisation on reset changes
 * the behaviour of every object type).  Exit 1 = defect present. */
#include "../common.h"
static uint16_t hbtime = 100; static uint32_t syncid = 0x40000080, synccycle = 50000;
static CO_OBJ dict[] = {
    { CO_KEY(0x1005, 0, CO_OBJ_____RW), CO_TSYNC_ID,    (CO_DATA)&syncid },
    { CO_KEY(0x1006, 0, CO_OBJ_____RW), CO_TSYNC_CYCLE, (CO_DATA)&synccycle },
    { CO_KEY(0x1017, 0, CO_OBJ_____RW), CO_THB_PROD,    (CO_DATA)&hbtime },
    CO_OBJ_DICT_ENDMARK
};
static int count(uint32_t id) { int n = 0; for (int i = 0; i < txn; i++) if (txlog[i].Identifier == id) n++; return n; }
int main(void)
{
    node_up(dict, 4, 1, 1000);
    txn = 0; tick(1000);
    int hb0 = count(0x701), sy0 = count(0x80);
    rx(0, 2, 130, 1, 0, 0, 0, 0, 0, 0);           /* NMT reset communication */
    txn = 0; tick(1000);
    int hb1 = count(0x701), sy1 = count(0x80), id0 = count(0);
    printf("1000 ticks before reset: %d heartbeats, %d SYNCs; after reset: %d heartbeats, %d SYNCs, %d frames with identifier 0\n", hb0, sy0, hb1, sy1, id0);
    printf("Sync.CobId after reset = %08x (1005h = %08x), timer slots in use: Use=%p\n", node.Sync.CobId, syncid, (void *)node.Tmr.Use);
    return (hb1 != hb0 || sy1 != sy0);
}
