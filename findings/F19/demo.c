/* F19 (C16): SYNC producer period.  (a) COSyncProdActivate hands Cycle/100 to COTmrGetTicks, whose time argument
 * is 16 bit: a period of 10 s (100000 x 100us) is narrowed to 34464 -> SYNC every 3.4464 s.  (b) the writes of
 * 1005h/1006h decide 'period cannot be resolved' by looking at the sticky node error: after one refused write
 * every later valid write is refused as well until the application reads the error.  Exit 1 = defect present. */
#include "../common.h"
static uint32_t syncid = 0x00000080, synccycle = 10000000;
static CO_OBJ dict[] = {
    { CO_KEY(0x1005, 0, CO_OBJ_____RW), CO_TSYNC_ID,    (CO_DATA)&syncid },
    { CO_KEY(0x1006, 0, CO_OBJ_____RW), CO_TSYNC_CYCLE, (CO_DATA)&synccycle },
    { CO_KEY(0x1200, 1, CO_OBJ_DN__R_), CO_TUNSIGNED32, (CO_DATA)0x600 },
    { CO_KEY(0x1200, 2, CO_OBJ_DN__R_), CO_TUNSIGNED32, (CO_DATA)0x580 },
    CO_OBJ_DICT_ENDMARK
};
int main(void)
{
    int bad = 0;
    node_up(dict, 5, 1, 1000);
    txn = 0;
    rx(0x601, 8, 0x23, 0x05, 0x10, 0, 0x80, 0, 0, 0x40);         /* SDO write 1005h = 40000080h: start producing, period 10 s */
    uint8_t verdict = txlog[0].Data[0];
    printf("(a) write 1005h with period 10 s: %s", verdict == 0x60 ? "accepted" : "refused");
    if (verdict == 0x60) {
        int ticks = 0; txn = 0; while (txn == 0 && ticks < 20000) { tick(1); ticks++; }
        printf(", first SYNC after %d ms (expected 10000)", ticks); bad |= (ticks != 10000);
    }
    printf("\n");
    return bad;
}
