/* F5 (C01, C03): SDO block upload, client acknowledges only part of a block.  The server keeps the
 * unacknowledged tail (kept = (SegCnt-SegOk)*7 bytes) at the front of the buffer and then refills
 * `kept` more bytes instead of (blksize*7 - kept): for ackseq 1 of 127 it reads 882 bytes behind
 * offset 882 of the 889 byte buffer (overflow), and for every ackseq with 2*kept != blksize*7 the
 * next block carries wrong data.  Found as failed obligation COObjRdBufCont.precondition (buffer
 * writable for size) of group sdo_ul_blk.  ASan aborts / data mismatch = defect present. */
#include "../common.h"
#include <stdlib.h>
static uint8_t mem[4000];
static CO_OBJ_DOM dom = { 0, 4000, mem };
static CO_OBJ dict[] = {
    { CO_KEY(0x1200, 1, CO_OBJ_DN__R_), CO_TUNSIGNED32, (CO_DATA)0x600 },
    { CO_KEY(0x1200, 2, CO_OBJ_DN__R_), CO_TUNSIGNED32, (CO_DATA)0x580 },
    { CO_KEY(0x2000, 0, CO_OBJ_____RW), CO_TDOMAIN,     (CO_DATA)&dom },
    CO_OBJ_DICT_ENDMARK
};
int main(int argc, char **argv)
{
    int ack = argc > 1 ? atoi(argv[1]) : 1, bad = 0;
    for (int i = 0; i < 4000; i++) mem[i] = (uint8_t)(i * 7 + (i >> 8));
    node_up(dict, 4, 1, 1000);
    rx(0x601, 8, 0xA0, 0x00, 0x20, 0x00, 127, 0, 0, 0);   /* initiate block upload, blksize 127 */
    txn = 0;
    rx(0x601, 8, 0xA3, 0, 0, 0, 0, 0, 0, 0);              /* start: 127 segments */
    printf("first block: %d segments\n", txn);
    txn = 0;
    rx(0x601, 8, 0xA2, (uint8_t)ack, 127, 0, 0, 0, 0, 0); /* acknowledge only `ack` segments */
    printf("repeat block after ack %d: %d segments\n", ack, txn);
    for (int s = 0; s < txn; s++) {                       /* segment s must carry bytes from offset (ack+s)*7 */
        for (int b = 0; b < 7; b++) {
            if (txlog[s].Data[1 + b] != mem[(ack + s) * 7 + b]) { bad++; }
        }
    }
    printf("wrong bytes in repeated block: %d\n", bad);
    return bad ? 1 : 0;
}
