/* F30 (C01): COSdoReset leaves the block transfer counters (Blk.SegNum, ...) uninitialised.  With a
 * CO_NODE that is not zero-initialised (stack/heap) the stale block size (here 255) is used by a
 * 'start block upload' during an open segmented upload: 255*7 bytes are read into the 889 byte
 * buffer.  Found as failed obligation COSdoReset.postcondition (WF_SDO: SegNum <= 127) of group
 * sdo_reset.  ASan aborts = defect present. */
#include "../common.h"
static uint8_t mem[4000];
static CO_OBJ_DOM dom = { 0, 4000, mem };
static CO_OBJ dict[] = {
    { CO_KEY(0x1200, 1, CO_OBJ_DN__R_), CO_TUNSIGNED32, (CO_DATA)0x600 },
    { CO_KEY(0x1200, 2, CO_OBJ_DN__R_), CO_TUNSIGNED32, (CO_DATA)0x580 },
    { CO_KEY(0x2000, 0, CO_OBJ_____RW), CO_TDOMAIN,     (CO_DATA)&dom },
    CO_OBJ_DICT_ENDMARK
};
int main(void)
{
    memset(&node, 0xFF, sizeof(node));                    /* node memory as handed over by e.g. malloc */
    node_up(dict, 4, 1, 1000);
    rx(0x601, 8, 0x40, 0x00, 0x20, 0x00, 0, 0, 0, 0);     /* initiate (segmented) upload 2000h:00 */
    rx(0x601, 8, 0xA3, 0, 0, 0, 0, 0, 0, 0);              /* start block upload */
    printf("SegNum=%u frames=%d\n", node.Sdo[0].Blk.SegNum, txn);
    return node.Sdo[0].Blk.SegNum > 127;
}
