/* F29 (C01): initiate block upload (and the block upload acknowledge) store the client's block
 * size BEFORE validating it.  A refused block size > 127 stays in the server; a later 'start block
 * upload' (A3h) during an open segmented upload reads blksize*7 = 1400 bytes from the object into the
 * 889 byte transfer buffer.  Found as failed obligations COSdoAbortReq.precondition / COSdoUploadBlock.
 * precondition (invariant SegNum <= 127) of groups sdo_ul_blk_init / sdo_ul_blk_ack.  ASan aborts = defect. */
#include "../common.h"
static uint8_t mem[2000];
static CO_OBJ_DOM dom = { 0, 2000, mem };
static CO_OBJ dict[] = {
    { CO_KEY(0x1200, 1, CO_OBJ_DN__R_), CO_TUNSIGNED32, (CO_DATA)0x600 },
    { CO_KEY(0x1200, 2, CO_OBJ_DN__R_), CO_TUNSIGNED32, (CO_DATA)0x580 },
    { CO_KEY(0x2000, 0, CO_OBJ_____RW), CO_TDOMAIN,     (CO_DATA)&dom },
    CO_OBJ_DICT_ENDMARK
};
int main(void)
{
    node_up(dict, 4, 1, 1000);
    rx(0x601, 8, 0xA0, 0x00, 0x20, 0x00, 200, 0, 0, 0);   /* initiate block upload 2000h:00, blksize 200: refused */
    printf("after refused initiate: SegNum=%u\n", node.Sdo[0].Blk.SegNum);
    rx(0x601, 8, 0x40, 0x00, 0x20, 0x00, 0, 0, 0, 0);     /* initiate (segmented) upload 2000h:00 */
    rx(0x601, 8, 0xA3, 0, 0, 0, 0, 0, 0, 0);              /* start block upload */
    printf("ok: frames sent %d\n", txn);
    return node.Sdo[0].Blk.SegNum > 127;
}
