/* F42 (C12): the object-to-TPDO link table (TMap) is only ever appended to.  COTPdoReset - run whenever a client re-validates
 * a TPDO's COB-ID while OPERATIONAL (COTPdoIdWrite) - calls COTPdoGetMap, which adds one link per mapped object WITHOUT
 * removing the links of the previous activation of that TPDO.  (a) every re-validation adds a duplicate link: one change of
 * the mapped object then triggers the TPDO several times (several frames for one event, inhibit time 0); (b) a link of an
 * object that is no longer mapped survives: its change sends a TPDO that does not carry it; (c) after 32 links the table is
 * full: an object mapped afterwards is not linked at all and its changes are never transmitted - the trigger is lost.
 * Exit 1 = defect present. */
#include "../common.h"
static uint8_t a = 1, b = 2;
static CO_OBJ dict[] = {
    { CO_KEY(0x1200, 0, CO_OBJ_D___R_), CO_TUNSIGNED8, (CO_DATA)2 },
    { CO_KEY(0x1200, 1, CO_OBJ_DN__R_), CO_TUNSIGNED32, (CO_DATA)0x600 },
    { CO_KEY(0x1200, 2, CO_OBJ_DN__R_), CO_TUNSIGNED32, (CO_DATA)0x580 },
    { CO_KEY(0x1800, 0, CO_OBJ_D___R_), CO_TUNSIGNED8, (CO_DATA)2 },
    { CO_KEY(0x1800, 1, CO_OBJ_DN__RW), CO_TPDO_ID, (CO_DATA)0x40000180 },
    { CO_KEY(0x1800, 2, CO_OBJ_D___RW), CO_TPDO_TYPE, (CO_DATA)254 },
    { CO_KEY(0x1A00, 0, CO_OBJ_D___RW), CO_TPDO_NUM, (CO_DATA)1 },
    { CO_KEY(0x1A00, 1, CO_OBJ_D___RW), CO_TPDO_MAP, (CO_DATA)0x21000008 },
    { CO_KEY(0x2100, 0, CO_OBJ___APRW), CO_TUNSIGNED8, (CO_DATA)&a },
    { CO_KEY(0x2101, 0, CO_OBJ___APRW), CO_TUNSIGNED8, (CO_DATA)&b },
    CO_OBJ_DICT_ENDMARK
};
static int count_tpdo(int from) { int n = 0, k; for (k = from; k < txn; k++) if (txlog[k].Identifier == 0x181) n++; return n; }
static int sdo_ok(int from) { int k; for (k = from; k < txn; k++) if (txlog[k].Identifier == 0x581 && txlog[k].Data[0] == 0x60) return 1; return 0; }
int main(void)
{
    int t0, n, i, bad = 0; uint8_t v;
    node_up(dict, 11, 1, 1000);
    rx(0x000, 2, 0x01, 0x01, 0, 0, 0, 0, 0, 0);      /* start */
    t0 = txn; v = 10; CODictWrByte(&node.Dict, CO_DEV(0x2100, 0), v);
    n = count_tpdo(t0);
    printf("fresh node: one change of 2100h -> %d TPDO frame(s) (expected 1)\n", n); if (n != 1) bad = 1;
    /* a client invalidates and re-validates the TPDO (two accepted SDO downloads to 1800h:1) */
    for (i = 0; i < 3; i++) {
        t0 = txn; rx(0x601, 8, 0x23, 0x00, 0x18, 0x01, 0x81, 0x01, 0x00, 0xC0); if (!sdo_ok(t0)) { printf("invalidate refused %02x %02x%02x%02x%02x\n", txlog[txn-1].Data[0], txlog[txn-1].Data[7], txlog[txn-1].Data[6], txlog[txn-1].Data[5], txlog[txn-1].Data[4]); return 2; }
        t0 = txn; rx(0x601, 8, 0x23, 0x00, 0x18, 0x01, 0x81, 0x01, 0x00, 0x40); if (!sdo_ok(t0)) { printf("re-validate refused\n"); return 2; }
    }
    t0 = txn; v = 11; CODictWrByte(&node.Dict, CO_DEV(0x2100, 0), v);
    n = count_tpdo(t0);
    printf("after 3 re-validations: one change of 2100h -> %d TPDO frame(s) (expected 1)\n", n); if (n != 1) bad = 1;
    /* remap the TPDO from 2100h to 2101h (invalidate, count 0, entry, count 1, validate) - repeated until the table is full */
    for (i = 0; i < 40; i++) {
        rx(0x601, 8, 0x23, 0x00, 0x18, 0x01, 0x81, 0x01, 0x00, 0xC0);
        rx(0x601, 8, 0x23, 0x00, 0x18, 0x01, 0x81, 0x01, 0x00, 0x40);
    }
    rx(0x601, 8, 0x23, 0x00, 0x18, 0x01, 0x81, 0x01, 0x00, 0xC0);
    rx(0x601, 8, 0x2F, 0x00, 0x1A, 0x00, 0x00, 0, 0, 0);
    rx(0x601, 8, 0x23, 0x00, 0x1A, 0x01, 0x08, 0x00, 0x01, 0x21);
    rx(0x601, 8, 0x2F, 0x00, 0x1A, 0x00, 0x01, 0, 0, 0);
    t0 = txn; rx(0x601, 8, 0x23, 0x00, 0x18, 0x01, 0x81, 0x01, 0x00, 0x40); if (!sdo_ok(t0)) { printf("re-validate after remapping refused\n"); return 2; }
    t0 = txn; v = 77; CODictWrByte(&node.Dict, CO_DEV(0x2101, 0), v);
    n = count_tpdo(t0);
    printf("remapped to 2101h: one change of 2101h -> %d TPDO frame(s) (expected 1)\n", n); if (n != 1) bad = 1;
    t0 = txn; v = 12; CODictWrByte(&node.Dict, CO_DEV(0x2100, 0), v);
    n = count_tpdo(t0);
    printf("remapped to 2101h: one change of the no longer mapped 2100h -> %d TPDO frame(s) (expected 0)\n", n); if (n != 0) bad = 1;
    return bad;
}
