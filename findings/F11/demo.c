/* F11/F12 (C13, C01): synchronous RPDOs.  F11: COSyncRx dereferences Sync.RPdo[i] for every i without a NULL
 * check: with RPDO0 asynchronous and RPDO1 synchronous the first frame for RPDO1 dereferences NULL.
 * F12: COSyncHandler applies the buffered frame of every synchronous RPDO on EVERY SYNC - also when nothing
 * was received since (a SYNC before any reception writes zeros; a later local change is overwritten by the
 * stale frame).  Exit 1 / crash = defect present. */
#include "../common.h"
static uint16_t v16 = 0x5555; static uint8_t n1 = 1, tasync = 254, tsync = 1;
static uint32_t id0 = 0x201, id1 = 0x301, map = CO_LINK(0x2000, 0, 16), sid = 0x80;
static uint8_t n0 = 0;
static CO_OBJ dict[] = {
    { CO_KEY(0x1005, 0, CO_OBJ_____RW), CO_TSYNC_ID,    (CO_DATA)&sid },
    { CO_KEY(0x1400, 0, CO_OBJ_D___R_), CO_TUNSIGNED8,  (CO_DATA)2 },
    { CO_KEY(0x1400, 1, CO_OBJ_____RW), CO_TPDO_ID,     (CO_DATA)&id0 },
    { CO_KEY(0x1400, 2, CO_OBJ_____RW), CO_TPDO_TYPE,   (CO_DATA)&tasync },
    { CO_KEY(0x1401, 0, CO_OBJ_D___R_), CO_TUNSIGNED8,  (CO_DATA)2 },
    { CO_KEY(0x1401, 1, CO_OBJ_____RW), CO_TPDO_ID,     (CO_DATA)&id1 },
    { CO_KEY(0x1401, 2, CO_OBJ_____RW), CO_TPDO_TYPE,   (CO_DATA)&tsync },
    { CO_KEY(0x1600, 0, CO_OBJ_____RW), CO_TPDO_NUM,    (CO_DATA)&n0 },
    { CO_KEY(0x1601, 0, CO_OBJ_____RW), CO_TPDO_NUM,    (CO_DATA)&n1 },
    { CO_KEY(0x1601, 1, CO_OBJ_____RW), CO_TPDO_MAP,    (CO_DATA)&map },
    { CO_KEY(0x2000, 0, CO_OBJ____PRW), CO_TUNSIGNED16, (CO_DATA)&v16 },
    CO_OBJ_DICT_ENDMARK
};
int main(void)
{
    int bad = 0;
    node_up(dict, 12, 1, 1000);
    rx(0, 2, 1, 1, 0, 0, 0, 0, 0, 0);                       /* OPERATIONAL */
    rx(0x80, 0, 0, 0, 0, 0, 0, 0, 0, 0);                    /* SYNC before any RPDO reception */
    printf("F12: after a SYNC without reception 2000h:00 = %04x (expected 5555)\n", v16);
    bad |= (v16 != 0x5555);
    rx(0x301, 2, 0x34, 0x12, 0, 0, 0, 0, 0, 0);             /* synchronous RPDO1 (F11: NULL deref in COSyncRx) */
    rx(0x80, 0, 0, 0, 0, 0, 0, 0, 0, 0);
    printf("after reception + SYNC 2000h:00 = %04x (expected 1234)\n", v16);
    bad |= (v16 != 0x1234);
    v16 = 0x7777;                                           /* local change */
    rx(0x80, 0, 0, 0, 0, 0, 0, 0, 0, 0);                    /* SYNC without new reception */
    printf("F12: local value after a further SYNC = %04x (expected 7777)\n", v16);
    bad |= (v16 != 0x7777);
    return bad;
}
