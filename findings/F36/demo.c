/* F36 (C02): a block download is confirmed although the object refused the data.  COSdoEndDownloadBlock builds the
 * abort frame for a failed write and then overwrites it with the A1h confirmation; COSdoDownloadBlock only records a
 * node error when the flush at the end of a block fails.  Demo: 1010h:1 (store parameters) refuses every value but
 * 'save'; an expedited download of "xxxx" is aborted, the same bytes sent as block download are confirmed.
 * Exit 1 = defect present. */
#include "../common.h"
static uint8_t n = 1; static uint32_t var;
static CO_PARA pg = { 0, 4, (uint8_t *)&var, (uint8_t *)&var, CO_RESET_NODE, 0, CO_PARA___E };
static CO_OBJ dict[] = {
    { CO_KEY(0x1010, 0, CO_OBJ_D___R_), CO_TUNSIGNED8, (CO_DATA)1 },
    { CO_KEY(0x1010, 1, CO_OBJ_____RW), CO_TPARA_STORE, (CO_DATA)&pg },
    { CO_KEY(0x1200, 0, CO_OBJ_D___R_), CO_TUNSIGNED8, (CO_DATA)2 },
    { CO_KEY(0x1200, 1, CO_OBJ_DN__R_), CO_TUNSIGNED32, (CO_DATA)0x600 },
    { CO_KEY(0x1200, 2, CO_OBJ_DN__R_), CO_TUNSIGNED32, (CO_DATA)0x580 },
    CO_OBJ_DICT_ENDMARK
};
int main(void)
{
    int t0, bad = 0; (void)n;
    node_up(dict, 6, 1, 1000);
    t0 = txn; rx(0x601, 8, 0x23, 0x10, 0x10, 0x01, 'x', 'x', 'x', 'x');
    printf("expedited download of 'xxxx' to 1010h:1 : response %02x (expected 80 = abort)\n", txlog[t0].Data[0]);
    t0 = txn; rx(0x601, 8, 0xC6, 0x10, 0x10, 0x01, 4, 0, 0, 0);               /* initiate block download, size 4 */
    printf("block download: initiate response %02x\n", txlog[t0].Data[0]);
    t0 = txn; rx(0x601, 8, 0x81, 'x', 'x', 'x', 'x', 0, 0, 0);                /* last segment, seq 1 */
    printf("block download: segment response %02x ackseq %u\n", txlog[t0].Data[0], txlog[t0].Data[1]);
    t0 = txn; rx(0x601, 8, 0xC1 | (3 << 2), 0, 0, 0, 0, 0, 0, 0);             /* end, 3 unused bytes */
    printf("block download: end response %02x (expected 80 = abort, a1 = confirmed)\n", txlog[t0].Data[0]);
    if (txlog[t0].Data[0] == 0xA1) bad = 1;
    return bad;
}
