/* F4 (C01): COSdoDownloadSegmented has no "transfer open" guard and does not rewind the buffer
 * cursor on the last segment: ~150 download-segment frames (ccs=0, n=1, c=1, alternating toggle)
 * sent to an idle server walk the cursor out of the 889 byte transfer buffer.
 * Found as failed obligations of group sdo_dl_seg (COObjWrBufCont.precondition: buffer readable for
 * len; write-set check *(srv->Buf.Cur); postconditions for Obj == 0).  ASan aborts = defect present. */
#include "../common.h"
static uint8_t val;
static CO_OBJ dict[] = {
    { CO_KEY(0x1200, 1, CO_OBJ_DN__R_), CO_TUNSIGNED32, (CO_DATA)0x600 },
    { CO_KEY(0x1200, 2, CO_OBJ_DN__R_), CO_TUNSIGNED32, (CO_DATA)0x580 },
    { CO_KEY(0x2000, 0, CO_OBJ_____RW), CO_TUNSIGNED8,  (CO_DATA)&val },
    CO_OBJ_DICT_ENDMARK
};
int main(void)
{
    node_up(dict, 4, 1, 1000);
    for (int i = 0; i < 200; i++) {
        rx(0x601, 8, (uint8_t)(0x03 | ((i & 1) << 4)), 1, 2, 3, 4, 5, 6, 7);
        long off = node.Sdo[0].Buf.Cur - node.Sdo[0].Buf.Start;
        if (off > CO_SDO_BUF_BYTE) { printf("cursor %ld bytes into an 889 byte buffer after %d frames\n", off, i + 1); return 1; }
    }
    printf("ok: cursor stays inside the buffer\n");
    return 0;
}
