/* F6 (C04): the SDO server latches the multiplexer of a request only while no transfer is open.
 * An initiate request arriving during an open segmented transfer is answered positively - for the
 * object of the OLD transfer.  Found as failed obligation COSdoCheck.postcondition "initiate request:
 * latched multiplexer == multiplexer of the request" (group sdo_check).  Exit 1 = defect present. */
#include "../common.h"
static uint8_t mem[100];
static CO_OBJ_DOM dom = { 0, 100, mem };
static uint32_t other = 0x11223344;
static CO_OBJ dict[] = {
    { CO_KEY(0x1200, 1, CO_OBJ_DN__R_), CO_TUNSIGNED32, (CO_DATA)0x600 },
    { CO_KEY(0x1200, 2, CO_OBJ_DN__R_), CO_TUNSIGNED32, (CO_DATA)0x580 },
    { CO_KEY(0x2000, 0, CO_OBJ_____RW), CO_TDOMAIN,     (CO_DATA)&dom },
    { CO_KEY(0x2001, 0, CO_OBJ_____RW), CO_TUNSIGNED32, (CO_DATA)&other },
    CO_OBJ_DICT_ENDMARK
};
int main(void)
{
    node_up(dict, 5, 1, 1000);
    rx(0x601, 8, 0x40, 0x00, 0x20, 0x00, 0, 0, 0, 0);     /* initiate upload 2000h:00 (domain, segmented) */
    txn = 0;
    rx(0x601, 8, 0x40, 0x01, 0x20, 0x00, 0, 0, 0, 0);     /* initiate upload 2001h:00 (UNSIGNED32) */
    CO_IF_FRM *r = &txlog[0];
    printf("response to 'upload 2001h:00': cmd=%02x mux=%02x%02x:%02x data=%02x%02x%02x%02x\n",
           r->Data[0], r->Data[2], r->Data[1], r->Data[3], r->Data[7], r->Data[6], r->Data[5], r->Data[4]);
    /* expected: 43h 2001:00 11223344; the defect answers 41h (segmented, size 100) with the mux 2001h:00 */
    return !(r->Data[0] == 0x43 && r->Data[4] == 0x44 && r->Data[7] == 0x11);
}
