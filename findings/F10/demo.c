/* F10 (C13, C01): RPDO dummy mapping entries (0002h..0007h).  (a) CORPdoWrite does not skip the bytes of a
 * dummy entry: with mapping [UNSIGNED8 dummy, 2000h:00 (16 bit)] the object receives payload bytes 0..1 instead
 * of 1..2.  (b) CORPdoGetMap expands a dummy of n bytes into n slots PLUS the slot of the entry itself: two
 * 32-bit dummies write Map[8] (out of bounds) and set ObjNum = 10.  Exit 1 = defect present. */
#include "../common.h"
static uint16_t v16; static uint8_t n1 = 2, n2 = 2, t = 254;
static uint32_t id1 = 0x201, id2 = 0x301, m1a = CO_LINK(0x0005, 0, 8), m1b = CO_LINK(0x2000, 0, 16), m2a = CO_LINK(0x0007, 0, 32), m2b = CO_LINK(0x0007, 0, 32);
static CO_OBJ dict[] = {
    { CO_KEY(0x1400, 0, CO_OBJ_D___R_), CO_TUNSIGNED8,  (CO_DATA)2 },
    { CO_KEY(0x1400, 1, CO_OBJ_____RW), CO_TPDO_ID,     (CO_DATA)&id1 },
    { CO_KEY(0x1400, 2, CO_OBJ_____RW), CO_TPDO_TYPE,   (CO_DATA)&t },
    { CO_KEY(0x1401, 0, CO_OBJ_D___R_), CO_TUNSIGNED8,  (CO_DATA)2 },
    { CO_KEY(0x1401, 1, CO_OBJ_____RW), CO_TPDO_ID,     (CO_DATA)&id2 },
    { CO_KEY(0x1401, 2, CO_OBJ_____RW), CO_TPDO_TYPE,   (CO_DATA)&t },
    { CO_KEY(0x1600, 0, CO_OBJ_____RW), CO_TPDO_NUM,    (CO_DATA)&n1 },
    { CO_KEY(0x1600, 1, CO_OBJ_____RW), CO_TPDO_MAP,    (CO_DATA)&m1a },
    { CO_KEY(0x1600, 2, CO_OBJ_____RW), CO_TPDO_MAP,    (CO_DATA)&m1b },
    { CO_KEY(0x1601, 0, CO_OBJ_____RW), CO_TPDO_NUM,    (CO_DATA)&n2 },
    { CO_KEY(0x1601, 1, CO_OBJ_____RW), CO_TPDO_MAP,    (CO_DATA)&m2a },
    { CO_KEY(0x1601, 2, CO_OBJ_____RW), CO_TPDO_MAP,    (CO_DATA)&m2b },
    { CO_KEY(0x2000, 0, CO_OBJ____PRW), CO_TUNSIGNED16, (CO_DATA)&v16 },
    CO_OBJ_DICT_ENDMARK
};
int main(void)
{
    int bad = 0;
    node_up(dict, 14, 1, 1000);
    rx(0, 2, 1, 1, 0, 0, 0, 0, 0, 0);                       /* NMT start: OPERATIONAL */
    rx(0x201, 3, 0xAA, 0x34, 0x12, 0, 0, 0, 0, 0);          /* dummy byte, then 1234h */
    printf("(a) 2000h:00 = %04x (expected 1234)\n", v16);
    bad |= (v16 != 0x1234);
    printf("(b) RPDO1 with two 32-bit dummies: ObjNum = %u (must be <= 8)\n", node.RPdo[1].ObjNum);
    bad |= (node.RPdo[1].ObjNum > 8);
    return bad;
}
