/* F3: CODictFind returns the end marker for a key with index 0000h/sub 0 and
 * non-zero flag bits (found as failed obligations CODictFind.postcondition.1 and
 * loop_invariant_base of group dict_find). Exit 1 = defect present. */
#include "co_core.h"
#include <stdio.h>
static CO_OBJ dict[] = {
    CO_OBJ_DICT_ENDMARK
};
int main(void)
{
    CO_DICT cod; CO_NODE node;
    CODictInit(&cod, &node, dict, 1);   /* empty, end-marked dictionary */
    CO_OBJ *r = CODictFind(&cod, CO_KEY(0, 0, CO_OBJ_____R_));
    if (r != NULL) {
        printf("CODictFind(0000h:00|R) returned entry #%ld (Num=%u): the end marker\n", (long)(r - dict), cod.Num);
        return 1;
    }
    printf("ok: NULL\n");
    return 0;
}
