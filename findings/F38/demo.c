/* F38 (C01): disabling an SDO server through that very server crashes the node.  1200h:1 (COB-ID client -> server)
 * with type CO_TSDO_ID is writable while valid if the new value has bit 31 set; COTSdoIdWrite then calls COSdoReset
 * for the server - which is the one that is processing the request: its Frm pointer becomes NULL and
 * COSdoDownloadExpedited builds the 60h response through it (NULL dereference).  Exit 1 / sanitizer report = defect. */
#include "../common.h"
static uint32_t rxid = 0x600, txid = 0x580;
static CO_OBJ dict[] = {
    { CO_KEY(0x1200, 0, CO_OBJ_D___R_), CO_TUNSIGNED8, (CO_DATA)2 },
    { CO_KEY(0x1200, 1, CO_OBJ__N__RW), CO_TSDO_ID, (CO_DATA)&rxid },
    { CO_KEY(0x1200, 2, CO_OBJ__N__RW), CO_TSDO_ID, (CO_DATA)&txid },
    CO_OBJ_DICT_ENDMARK
};
int main(void)
{
    int t0;
    node_up(dict, 4, 1, 1000);
    t0 = txn;
    rx(0x601, 8, 0x23, 0x00, 0x12, 0x01, 0x01, 0x06, 0x00, 0x80);    /* 1200h:1 := 80000601h through server 0 */
    printf("write of 80000601h to 1200h:1: %d response frame(s), first byte %02x\n", txn - t0, txn > t0 ? txlog[t0].Data[0] : 0);
    return 0;
}
