/* F35 (C19): COCSdoResponse decodes expedited responses without looking at the transfer type: while an expedited
 * DOWNLOAD is running any response with (cmd & 43h) != 0 - e.g. an upload response 43h - is taken as expedited upload
 * data: the user's (source) buffer is overwritten and the download is reported as completed with code 0 although the
 * server never confirmed it; an upload is likewise "completed" with code 0 by a download confirmation 60h.
 * Exit 1 = defect present. */
#include "../common.h"
static uint32_t tx1 = 0x600, rx1 = 0x580; static uint8_t sid = 2;
static CO_OBJ dict[] = {
    { CO_KEY(0x1280, 1, CO_OBJ_____RW), CO_TUNSIGNED32, (CO_DATA)&tx1 },
    { CO_KEY(0x1280, 2, CO_OBJ_____RW), CO_TUNSIGNED32, (CO_DATA)&rx1 },
    { CO_KEY(0x1280, 3, CO_OBJ_____RW), CO_TUNSIGNED8, (CO_DATA)&sid },
    CO_OBJ_DICT_ENDMARK
};
static int ncb; static uint32_t code;
static void cb(CO_CSDO *c, uint16_t i, uint8_t s, uint32_t co) { (void)c; (void)i; (void)s; ncb++; code = co; }
int main(void)
{
    uint32_t v = 0x11223344; uint8_t buf[4] = { 9, 9, 9, 9 }; int bad = 0;
    node_up(dict, 4, 1, 1000);
    CO_CSDO *c = COCSdoFind(&node, 0);
    COCSdoRequestDownload(c, CO_DEV(0x2000, 1), (uint8_t *)&v, 4, cb, 1000);
    rx(0x582, 8, 0x43, 0x00, 0x20, 0x01, 0xAA, 0xBB, 0xCC, 0xDD);      /* not a download confirmation */
    printf("download: callbacks %d code %08x, source value now %08x (expected: no success, 11223344)\n", ncb, code, v);
    if ((ncb == 1 && code == 0) || v != 0x11223344) bad = 1;
    tick(1100); ncb = 0;
    COCSdoRequestUpload(c, CO_DEV(0x2000, 1), buf, 4, cb, 1000);
    rx(0x582, 8, 0x60, 0x00, 0x20, 0x01, 0, 0, 0, 0);                  /* not an upload response */
    printf("upload: callbacks %d code %08x, buffer %u %u %u %u (expected: no success)\n", ncb, code, buf[0], buf[1], buf[2], buf[3]);
    if (ncb == 1 && code == 0) bad = 1;
    return bad;
}
