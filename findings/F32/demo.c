/* F32 (C12): COTPdoTx checks the remaining space against the OBJECT size instead of the MAPPED size: a 24-bit
 * mapping of an UNSIGNED32 that ends at byte 8 (1+2+2+3 bytes) is dropped, the TPDO goes out with DLC 5.
 * Found as failed obligation "TPDO frame: ... DLC == mapped byte count" of group tpdo_tx.  Exit 1 = defect. */
#include "../common.h"
static uint8_t a = 0x11, n = 4, t = 254; static uint16_t b = 0x2222, c = 0x3333; static uint32_t d = 0x00445566, id = 0x40000181;
static uint32_t m1 = CO_LINK(0x2000, 0, 8), m2 = CO_LINK(0x2001, 0, 16), m3 = CO_LINK(0x2002, 0, 16), m4 = CO_LINK(0x2003, 0, 24);
static CO_OBJ dict[] = {
    { CO_KEY(0x1800, 0, CO_OBJ_D___R_), CO_TUNSIGNED8,  (CO_DATA)2 },
    { CO_KEY(0x1800, 1, CO_OBJ_____RW), CO_TPDO_ID,     (CO_DATA)&id },
    { CO_KEY(0x1800, 2, CO_OBJ_____RW), CO_TPDO_TYPE,   (CO_DATA)&t },
    { CO_KEY(0x1A00, 0, CO_OBJ_____RW), CO_TPDO_NUM,    (CO_DATA)&n },
    { CO_KEY(0x1A00, 1, CO_OBJ_____RW), CO_TPDO_MAP,    (CO_DATA)&m1 },
    { CO_KEY(0x1A00, 2, CO_OBJ_____RW), CO_TPDO_MAP,    (CO_DATA)&m2 },
    { CO_KEY(0x1A00, 3, CO_OBJ_____RW), CO_TPDO_MAP,    (CO_DATA)&m3 },
    { CO_KEY(0x1A00, 4, CO_OBJ_____RW), CO_TPDO_MAP,    (CO_DATA)&m4 },
    { CO_KEY(0x2000, 0, CO_OBJ____PRW), CO_TUNSIGNED8,  (CO_DATA)&a },
    { CO_KEY(0x2001, 0, CO_OBJ____PRW), CO_TUNSIGNED16, (CO_DATA)&b },
    { CO_KEY(0x2002, 0, CO_OBJ____PRW), CO_TUNSIGNED16, (CO_DATA)&c },
    { CO_KEY(0x2003, 0, CO_OBJ____PRW), CO_TUNSIGNED32, (CO_DATA)&d },
    CO_OBJ_DICT_ENDMARK
};
int main(void)
{
    node_up(dict, 13, 1, 1000);
    rx(0, 2, 1, 1, 0, 0, 0, 0, 0, 0);
    txn = 0; COTPdoTrigPdo(node.TPdo, 0);
    printf("TPDO: %d frame(s), DLC %u (expected 8), byte 5..7 = %02x %02x %02x (expected 66 55 44)\n", txn, txlog[0].DLC, txlog[0].Data[5], txlog[0].Data[6], txlog[0].Data[7]);
    return !(txn == 1 && txlog[0].DLC == 8 && txlog[0].Data[5] == 0x66 && txlog[0].Data[7] == 0x44);
}
