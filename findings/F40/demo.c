/* F40 (C02/C03): transfers of 1..4 bytes to/from a DOMAIN do not rewind the domain's position.  The SDO server takes
 * "size <= 4" for "basic type" and skips COObjWrBufStart / COObjRdBufStart (segmented and block download, block
 * upload) resp. uses a plain typed read (expedited upload); the domain's internal offset then still stands behind
 * the previous transfer.  (a) a 3-byte domain is uploaded expedited twice: the second upload delivers nothing;
 * (b) 3 bytes are downloaded (segmented, size announced) twice into a 10-byte domain: the second download is
 * confirmed but lands behind the first.  Exit 1 = defect present. */
#include "../common.h"
static uint8_t m3[3] = { 0x11, 0x22, 0x33 }, m10[10];
static CO_OBJ_DOM d3 = { 0, 3, m3 }, d10 = { 0, 10, m10 };
static CO_OBJ dict[] = {
    { CO_KEY(0x1200, 0, CO_OBJ_D___R_), CO_TUNSIGNED8, (CO_DATA)2 },
    { CO_KEY(0x1200, 1, CO_OBJ_DN__R_), CO_TUNSIGNED32, (CO_DATA)0x600 },
    { CO_KEY(0x1200, 2, CO_OBJ_DN__R_), CO_TUNSIGNED32, (CO_DATA)0x580 },
    { CO_KEY(0x2100, 0, CO_OBJ_____RW), CO_TDOMAIN, (CO_DATA)&d3 },
    { CO_KEY(0x2101, 0, CO_OBJ_____RW), CO_TDOMAIN, (CO_DATA)&d10 },
    CO_OBJ_DICT_ENDMARK
};
int main(void)
{
    int t0, bad = 0, k;
    node_up(dict, 6, 1, 1000);
    for (k = 0; k < 2; k++) {
        t0 = txn; rx(0x601, 8, 0x40, 0x00, 0x21, 0x00, 0, 0, 0, 0);
        printf("(a) upload %d of the 3-byte domain: %02x  %02x %02x %02x\n", k + 1, txlog[t0].Data[0], txlog[t0].Data[4], txlog[t0].Data[5], txlog[t0].Data[6]);
        if (!(txlog[t0].Data[0] == 0x47 && txlog[t0].Data[4] == 0x11 && txlog[t0].Data[5] == 0x22 && txlog[t0].Data[6] == 0x33)) bad = 1;
    }
    for (k = 0; k < 2; k++) {
        rx(0x601, 8, 0x21, 0x01, 0x21, 0x00, 3, 0, 0, 0);                               /* initiate segmented download, size 3 */
        t0 = txn; rx(0x601, 8, 0x01 | (4 << 1), 0xA0 + k, 0xB0 + k, 0xC0 + k, 0, 0, 0, 0);   /* one segment, 3 bytes, last */
        printf("(b) download %d of 3 bytes: response %02x, domain = %02x %02x %02x %02x %02x %02x\n", k + 1, txlog[t0].Data[0], m10[0], m10[1], m10[2], m10[3], m10[4], m10[5]);
        if (!(txlog[t0].Data[0] == 0x20 && m10[0] == 0xA0 + k && m10[1] == 0xB0 + k && m10[2] == 0xC0 + k && m10[3] == 0)) bad = 1;
    }
    return bad;
}
