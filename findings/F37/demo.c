/* F37 (C03): the block size a client sends with a PARTIAL acknowledge of a block upload is ignored: the repeated
 * block is sent with the old block size.  CiA 301: blksize of the A2h acknowledge is the "number of segments per
 * block that has to be used by server for the following block upload".  Domain of 100 bytes, initiate with
 * blksize 10, acknowledge 2 of 10 with new blksize 3: the server must send 3 segments (seq 1..3 = bytes 14..34),
 * it sends 10.  Exit 1 = defect present. */
#include "../common.h"
static uint8_t mem[100]; static CO_OBJ_DOM dom = { 0, 100, mem };
static CO_OBJ dict[] = {
    { CO_KEY(0x1200, 0, CO_OBJ_D___R_), CO_TUNSIGNED8, (CO_DATA)2 },
    { CO_KEY(0x1200, 1, CO_OBJ_DN__R_), CO_TUNSIGNED32, (CO_DATA)0x600 },
    { CO_KEY(0x1200, 2, CO_OBJ_DN__R_), CO_TUNSIGNED32, (CO_DATA)0x580 },
    { CO_KEY(0x2100, 0, CO_OBJ_____RW), CO_TDOMAIN, (CO_DATA)&dom },
    CO_OBJ_DICT_ENDMARK
};
int main(void)
{
    int k, t0, n;
    for (k = 0; k < 100; k++) mem[k] = (uint8_t)(k + 1);
    node_up(dict, 5, 1, 1000);
    rx(0x601, 8, 0xA0, 0x00, 0x21, 0x00, 10, 0, 0, 0);      /* initiate block upload, blksize 10 */
    t0 = txn; rx(0x601, 8, 0xA3, 0, 0, 0, 0, 0, 0, 0);      /* start upload */
    printf("first block: %d segments\n", txn - t0);
    t0 = txn; rx(0x601, 8, 0xA2, 2, 3, 0, 0, 0, 0, 0);      /* ack 2 of 10, new blksize 3 */
    n = txn - t0;
    printf("after ack(ackseq 2, blksize 3): %d segments sent (expected 3), first data byte %u (expected 15)\n", n, txlog[t0].Data[1]);
    return n != 3;
}
