/* F46 (C01, C14): CORPdoGetMap expands a dummy mapping entry into one slot per byte and bounds the mapped BYTES by 8 - but an
 * entry whose length is below 8 bits maps 0 bytes and still takes a slot.  Stored mapping 1600h = { 32-bit dummy, 32-bit dummy,
 * dummy of length 0 } (each write is accepted: COTPdoMapWrite does not look at the length, COTPdoNumWrite counts 64 bits):
 * on activation the third entry is written to Map[8], behind the 8 slots of the RPDO, and ObjNum becomes 9.
 * Built with UBSan/ASan: exit 1 / sanitizer report = defect present. */
#include "../common.h"
static uint32_t dummy32;
static CO_OBJ dict[] = {
    { CO_KEY(0x0007, 0, CO_OBJ____P_W), CO_TUNSIGNED32, (CO_DATA)&dummy32 },
    { CO_KEY(0x1400, 0, CO_OBJ_D___R_), CO_TUNSIGNED8, (CO_DATA)2 },
    { CO_KEY(0x1400, 1, CO_OBJ_DN__R_), CO_TUNSIGNED32, (CO_DATA)0x40000200 },
    { CO_KEY(0x1400, 2, CO_OBJ_D___R_), CO_TUNSIGNED8, (CO_DATA)254 },
    { CO_KEY(0x1600, 0, CO_OBJ_D___R_), CO_TUNSIGNED8, (CO_DATA)3 },
    { CO_KEY(0x1600, 1, CO_OBJ_D___R_), CO_TUNSIGNED32, (CO_DATA)0x00070020 },
    { CO_KEY(0x1600, 2, CO_OBJ_D___R_), CO_TUNSIGNED32, (CO_DATA)0x00070020 },
    { CO_KEY(0x1600, 3, CO_OBJ_D___R_), CO_TUNSIGNED32, (CO_DATA)0x00070000 },
    CO_OBJ_DICT_ENDMARK
};
int main(void)
{
    node_up(dict, 9, 1, 1000);
    rx(0x000, 2, 0x01, 0x01, 0, 0, 0, 0, 0, 0);      /* start: the stored RPDO mapping is activated */
    printf("RPDO #0 after activation: %u slots (the RPDO has 8), node error %d\n", (unsigned)node.RPdo[0].ObjNum, (int)CONodeGetErr(&node));
    return node.RPdo[0].ObjNum > 8;
}
