/* F16 (C11, C01): CONmtHbConsActivate manipulates the consumer chain with the position of the entry that
 * monitors the written NODE instead of the position of the written ENTRY:
 *  (a) entry 1 monitors node 5; rewriting entry 1 to node 6 links it a second time: the chain becomes cyclic and the
 *      next heartbeat of an unmonitored node never returns from CONmtHbConsCheck (unbounded loop);
 *  (b) entries 1,2 monitor nodes 5,6; writing (node 5, time 0) to the inactive entry 3 drops entries 1 and 2.
 * Exit 1 / timeout = defect present. */
#include "../common.h"
#include <signal.h>
#include <unistd.h>
#include <stdlib.h>
static CO_HBCONS c1 = { 0, 0, CO_INVALID, -1, 100, 5, 0 }, c2 = { 0, 0, CO_INVALID, -1, 100, 6, 0 }, c3 = { 0, 0, CO_INVALID, -1, 0, 0, 0 };
static uint8_t n = 3;
static CO_OBJ dict[] = {
    { CO_KEY(0x1016, 0, CO_OBJ_____R_), CO_THB_CONS, (CO_DATA)&n },
    { CO_KEY(0x1016, 1, CO_OBJ_____RW), CO_THB_CONS, (CO_DATA)&c1 },
    { CO_KEY(0x1016, 2, CO_OBJ_____RW), CO_THB_CONS, (CO_DATA)&c2 },
    { CO_KEY(0x1016, 3, CO_OBJ_____RW), CO_THB_CONS, (CO_DATA)&c3 },
    CO_OBJ_DICT_ENDMARK
};
static void on_alarm(int s) { (void)s; printf("(a) CONmtHbConsCheck does not return: cyclic consumer chain\n"); _exit(1); }
static int monitored(uint8_t id) { int r = 0; for (CO_HBCONS *h = node.Nmt.HbCons; h; h = h->Next) if (h->NodeId == id) r = 1; return r; }
int main(int argc, char **argv)
{
    node_up(dict, 5, 1, 1000);
    if (argc > 1) {
        CODictWrLong(&node.Dict, CO_DEV(0x1016, 3), (5u << 16) | 0);      /* (b) clear node 5 through the unused entry 3 */
        printf("(b) after writing (node 5, 0) to entry 3: node 5 monitored %d, node 6 monitored %d (expected 1 1)\n", monitored(5), monitored(6));
        return !(monitored(5) && monitored(6));
    }
    signal(SIGALRM, on_alarm); alarm(3);
    CODictWrLong(&node.Dict, CO_DEV(0x1016, 2), (7u << 16) | 100);        /* (a) entry 2: node 6 -> node 7 */
    rx(0x709, 1, 5, 0, 0, 0, 0, 0, 0, 0);                                 /* heartbeat of an unmonitored node */
    printf("(a) ok: node 5 %d node 6 %d node 7 %d (expected 1 0 1)\n", monitored(5), monitored(6), monitored(7));
    return !(monitored(5) && !monitored(6) && monitored(7));
}
