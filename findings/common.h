/* common native scaffolding for the finding demos: a node with dummy drivers, an rx queue and a tx log */
#include "co_core.h"
#include <stdio.h>
#include <string.h>
static CO_IF_FRM rxq[64]; static int rxh, rxt;
static CO_IF_FRM txlog[4096]; static int txn;
static uint32_t hw_reload, hw_cnt; static int hw_run;
static void  can_init(void) {}
static void  can_enable(uint32_t b) { (void)b; }
static int16_t can_read(CO_IF_FRM *f) { if (rxh == rxt) return 0; *f = rxq[rxh++ % 64]; return (int16_t)sizeof(CO_IF_FRM); }
static int16_t can_send(CO_IF_FRM *f) { if (txn < 4096) txlog[txn++] = *f; return (int16_t)sizeof(CO_IF_FRM); }
static void  can_reset(void) {}
static void  can_close(void) {}
static void  t_init(uint32_t f) { (void)f; }
static void  t_reload(uint32_t r) { hw_reload = r; hw_cnt = r; }
static uint32_t t_delay(void) { return hw_cnt; }
static void  t_stop(void) { hw_run = 0; }
static void  t_start(void) { hw_run = 1; }
static uint8_t t_update(void) { if (hw_run && hw_cnt > 0) { hw_cnt--; if (hw_cnt == 0) { return 1; } } return 0; }
static uint8_t nvm[4096];
static void  n_init(void) {}
static uint32_t n_read(uint32_t s, uint8_t *b, uint32_t n) { memcpy(b, nvm + s, n); return n; }
static uint32_t n_write(uint32_t s, uint8_t *b, uint32_t n) { memcpy(nvm + s, b, n); return n; }
static const CO_IF_CAN_DRV can_drv = { can_init, can_enable, can_read, can_send, can_reset, can_close };
static const CO_IF_TIMER_DRV tmr_drv = { t_init, t_reload, t_delay, t_stop, t_start, t_update };
static const CO_IF_NVM_DRV nvm_drv = { n_init, n_read, n_write };
static CO_IF_DRV drv = { &can_drv, &tmr_drv, &nvm_drv };
static CO_TMR_MEM tmrmem[16];
static uint8_t sdobuf[CO_SSDO_N * CO_SDO_BUF_BYTE];
static CO_NODE node;
static void rx(uint32_t id, uint8_t dlc, uint8_t d0, uint8_t d1, uint8_t d2, uint8_t d3, uint8_t d4, uint8_t d5, uint8_t d6, uint8_t d7)
{
    CO_IF_FRM f; f.Identifier = id; f.DLC = dlc;
    f.Data[0] = d0; f.Data[1] = d1; f.Data[2] = d2; f.Data[3] = d3; f.Data[4] = d4; f.Data[5] = d5; f.Data[6] = d6; f.Data[7] = d7;
    rxq[rxt++ % 64] = f;
    CONodeProcess(&node);
}
static void rx32(uint32_t id, uint8_t d0, uint32_t v) { rx(id, 8, d0, (uint8_t)v, (uint8_t)(v >> 8), (uint8_t)(v >> 16), (uint8_t)(v >> 24), 0, 0, 0); }
static void tick(int n) { while (n-- > 0) { COTmrService(&node.Tmr); COTmrProcess(&node.Tmr); } }
static void node_up(CO_OBJ *dict, uint16_t len, uint8_t id, uint32_t freq)
{
    CO_NODE_SPEC spec = { id, 250000, dict, len, NULL, tmrmem, 16, freq, &drv, sdobuf };
    CONodeInit(&node, &spec);
    CONodeStart(&node);
}
