#!/bin/bash
# usage: run_demo.sh <Fx> [repo]   — builds findings/<Fx>/demo.c against the repo's stack sources (ASan+UBSan)
F=$1; REPO=${2:-/repo}; D=$(dirname "$0"); OUT=$(mktemp -d /verif/build.demo.XXXX)
INC=""; for d in core config hal object/basic object/cia301 service/cia301 service/cia305; do INC="$INC -I$REPO/src/$d"; done
SRCS=$(find $REPO/src -name '*.c' -not -path '*/driver/*')
gcc -std=c99 -g -O1 -fsanitize=address,undefined -fno-sanitize-recover=undefined $INC $D/$F/demo.c $SRCS -o $OUT/demo 2>$OUT/cc.log || { cat $OUT/cc.log; rm -rf $OUT; exit 3; }
$OUT/demo; rc=$?; rm -rf $OUT; exit $rc
