/* F33 (C19): COCSdoTransferFinalize forgets the timeout action of a completed transfer (Tfer.Tmr = -1 without
 * COTmrDelete).  Transfer 1 (timeout 100 ms) completes at once; transfer 2 (timeout 1000 ms) is started 50 ms later
 * and the stale action of transfer 1 aborts it after 50 ms with 0504 0000h.  Exit 1 = defect present. */
#include "../common.h"
static uint32_t tx1 = 0x600, rx1 = 0x580; static uint8_t sid = 2;
static CO_OBJ dict[] = {
    { CO_KEY(0x1280, 1, CO_OBJ_____RW), CO_TUNSIGNED32, (CO_DATA)&tx1 },
    { CO_KEY(0x1280, 2, CO_OBJ_____RW), CO_TUNSIGNED32, (CO_DATA)&rx1 },
    { CO_KEY(0x1280, 3, CO_OBJ_____RW), CO_TUNSIGNED8, (CO_DATA)&sid },
    CO_OBJ_DICT_ENDMARK
};
static int ncb; static uint32_t code[8];
static void cb(CO_CSDO *c, uint16_t i, uint8_t s, uint32_t co) { (void)c; (void)i; (void)s; code[ncb++ & 7] = co; }
int main(void)
{
    uint8_t buf[4]; uint32_t v = 0x11223344;
    node_up(dict, 4, 1, 1000);
    CO_CSDO *c = COCSdoFind(&node, 0);
    if (!c) { printf("no client\n"); return 3; }
    COCSdoRequestUpload(c, CO_DEV(0x2000, 1), buf, 4, cb, 100);
    rx32(0x582, 0x43, 0x00012000 | (0x55u << 24)); /* expedited upload response: mux 2000:1 + first data byte */
    printf("transfer 1: callbacks %d code %08x\n", ncb, code[0]);
    tick(50);
    COCSdoRequestDownload(c, CO_DEV(0x2000, 1), (uint8_t *)&v, 4, cb, 1000);
    tick(60);                                      /* 110 ms after transfer 1 was started, 60 ms into transfer 2 */
    printf("transfer 2 after 60 of 1000 ms: callbacks %d%s\n", ncb, ncb == 2 ? " (aborted by the stale timer of transfer 1)" : "");
    if (ncb == 2) { printf("  code %08x\n", code[1]); return 1; }
    return 0;
}
