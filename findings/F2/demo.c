/* F2: CODictRdBuffer/CODictWrBuffer narrow the length to 8 bit: a 600 byte request moves
 * 600 & 0xFF = 88 bytes (failed obligation COObjRd/WrBufStart.precondition "size == caller's len"
 * in groups dict_buf_rd / dict_buf_wr).  Exit 1 = defect present. */
#include "co_core.h"
#include <stdio.h>
#include <string.h>
static uint8_t mem[600], buf[600];
static CO_OBJ_DOM dom = { 0, 600, mem };
static CO_OBJ dict[] = {
    { CO_KEY(0x2000, 0, CO_OBJ_____RW), CO_TDOMAIN, (CO_DATA)&dom },
    CO_OBJ_DICT_ENDMARK
};
int main(void)
{
    static CO_NODE node; int bad = 0;
    CODictInit(&node.Dict, &node, dict, 2);
    memset(mem, 0xAA, sizeof(mem)); memset(buf, 0, sizeof(buf));
    CO_ERR e = CODictRdBuffer(&node.Dict, CO_DEV(0x2000, 0), buf, 600);
    printf("RdBuffer(len=600): err=%d, bytes moved=%u, buf[599]=%02x\n", e, dom.Offset, buf[599]);
    bad |= (dom.Offset != 600 || buf[599] != 0xAA);
    memset(mem, 0, sizeof(mem)); memset(buf, 0x55, sizeof(buf));
    e = CODictWrBuffer(&node.Dict, CO_DEV(0x2000, 0), buf, 600);
    printf("WrBuffer(len=600): err=%d, bytes moved=%u, mem[599]=%02x\n", e, dom.Offset, mem[599]);
    bad |= (dom.Offset != 600 || mem[599] != 0x55);
    return bad;
}
