/* F21 (C07): COTmrGetTicks is not exact for timer frequencies that neither divide nor are a multiple of the time unit:
 * the frequency ratio is truncated before it is applied.  300 Hz: 100 ms are exactly 30 ticks, the stack computes
 * 100 / (1000 / 300) = 100 / 3 = 33;  1500 Hz: 2 ms are exactly 3 ticks, the stack computes 2 * (1500 / 1000) = 2.
 * A 100 ms heartbeat on a 300 Hz timer therefore has a period of 110 ms.  Exit 1 = defect present. */
#include "../common.h"
static CO_OBJ dict[] = { CO_OBJ_DICT_ENDMARK };
int main(void)
{
    uint32_t a, b;
    node_up(dict, 1, 1, 300);
    a = COTmrGetTicks(&node.Tmr, 100, CO_TMR_UNIT_1MS);
    node.Tmr.Freq = 1500;
    b = COTmrGetTicks(&node.Tmr, 2, CO_TMR_UNIT_1MS);
    printf("300 Hz: 100 ms = %u ticks (exactly 30);  1500 Hz: 2 ms = %u ticks (exactly 3)\n", a, b);
    return !(a == 30 && b == 3);
}
