/* F1: CODictObjInit never runs the type-specific initialisation of the FIRST dictionary
 * entry (failed obligations of group dict_objinit: loop_invariant_step / postcondition,
 * ghost index G_K = 0).  Exit 1 = defect present. */
#include "co_core.h"
#include <stdio.h>
static uint8_t mem[8];
static CO_OBJ_DOM dom0 = { 5, 8, mem };   /* stale offset, to be reset by COTDomainInit */
static CO_OBJ_DOM dom1 = { 5, 8, mem };
static CO_OBJ dict[] = {
    { CO_KEY(0x2000, 0, CO_OBJ_____RW), CO_TDOMAIN, (CO_DATA)&dom0 },
    { CO_KEY(0x2001, 0, CO_OBJ_____RW), CO_TDOMAIN, (CO_DATA)&dom1 },
    CO_OBJ_DICT_ENDMARK
};
int main(void)
{
    static CO_NODE node; 
    CODictInit(&node.Dict, &node, dict, 3);
    CODictObjInit(&node.Dict, &node);
    printf("offset of entry 0 after init: %u, of entry 1: %u\n", dom0.Offset, dom1.Offset);
    return (dom0.Offset != 0 || dom1.Offset != 0) ? 1 : 0;
}
