/* F14 (C15): COEmcySend ignores the valid bit of the EMCY COB-ID 1014h (bit 31 set = EMCY does not exist):
 * the emergency frame is transmitted anyway, with identifier 80000081h.  Found as failed obligation
 * COEmcySet.postcondition "G_TX_N == old + (EMCY_TX_ON() ? 1 : 0)" of group emcy_set. Exit 1 = defect. */
#include "../common.h"
static uint8_t reg;
static CO_EMCY_TBL tbl[CO_EMCY_N] = { { CO_EMCY_REG_GENERAL, 0x1000 } };
static CO_OBJ dict[] = {
    { CO_KEY(0x1001, 0, CO_OBJ_____R_), CO_TUNSIGNED8,  (CO_DATA)&reg },
    { CO_KEY(0x1014, 0, CO_OBJ_D___RW), CO_TEMCY_ID,    (CO_DATA)0x80000081 },   /* EMCY disabled */
    CO_OBJ_DICT_ENDMARK
};
int main(void)
{
    CO_NODE_SPEC spec = { 1, 250000, dict, 3, tbl, tmrmem, 16, 1000, &drv, sdobuf };
    CONodeInit(&node, &spec); CONodeStart(&node);
    txn = 0;
    COEmcySet(&node.Emcy, 0, NULL);
    printf("EMCY frames sent while 1014h is invalid: %d%s\n", txn, txn ? " (id " : "");
    if (txn) printf("%08x)\n", txlog[0].Identifier);
    return txn != 0;
}
