/* F39 (C18): LSS 'activate bit timing' with switch delay 0 (or any delay below one timer tick) kills the node: NMT goes
 * to INIT, the CAN controller is closed, and the cyclic delay timer is created with 0 ticks, which the timer manager
 * refuses - nothing ever re-opens the CAN controller or returns to PRE-OPERATIONAL.  Exit 1 = defect present. */
#include "../common.h"
static int closed, enabled;
static uint32_t id1 = 1, id2 = 2, id3 = 3, id4 = 4;
static CO_OBJ dict[] = {
    { CO_KEY(0x1018, 0, CO_OBJ_D___R_), CO_TUNSIGNED8, (CO_DATA)4 },
    { CO_KEY(0x1018, 1, CO_OBJ_____R_), CO_TUNSIGNED32, (CO_DATA)&id1 },
    { CO_KEY(0x1018, 2, CO_OBJ_____R_), CO_TUNSIGNED32, (CO_DATA)&id2 },
    { CO_KEY(0x1018, 3, CO_OBJ_____R_), CO_TUNSIGNED32, (CO_DATA)&id3 },
    { CO_KEY(0x1018, 4, CO_OBJ_____R_), CO_TUNSIGNED32, (CO_DATA)&id4 },
    CO_OBJ_DICT_ENDMARK
};
int main(int argc, char **argv)
{
    uint16_t delay = argc > 1 ? 100 : 0;
    node_up(dict, 6, 1, 1000);
    rx(0x7E5, 8, 0x04, 0x01, 0, 0, 0, 0, 0, 0);                 /* switch state global: configuration */
    rx(0x7E5, 8, 0x13, 0x00, 0x04, 0, 0, 0, 0, 0);              /* configure bit timing: table 0, index 4 (125k) */
    rx(0x7E5, 8, 0x15, (uint8_t)delay, (uint8_t)(delay >> 8), 0, 0, 0, 0, 0);   /* activate bit timing, switch delay */
    printf("after activate(delay %u ms): NMT mode %d, LSS timer %d\n", delay, CONmtGetMode(&node.Nmt), node.Lss.Tmr);
    tick(1000);
    printf("1000 ms later: NMT mode %d (expected %d = PRE-OPERATIONAL), node error %d\n", CONmtGetMode(&node.Nmt), CO_PREOP, node.Error);
    (void)closed; (void)enabled;
    return CONmtGetMode(&node.Nmt) != CO_PREOP;
}
