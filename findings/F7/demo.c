/* F7/F8/F9 (C08, C01): (F7) COTmrDelete of an action that has elapsed but is not yet processed empties its event,
 * which sits in the ELAPSED list, and hands it to COTmrRemove - which searches the USE list: NULL dereference when
 * no other timer is pending (or the event stays in the elapsed list with an empty action list and is lost - F8).
 * (F9) COTmrService trusts the driver's "elapsed" report although no timer is pending: NULL dereference.
 * Found by groups tmr2_delete / tmr2_service (pointer_dereference NULL in COTmrRemove / COTmrService). */
#include "../common.h"
static int fired;
static void cb(void *p) { (void)p; fired++; }
static CO_OBJ dict[] = { { CO_KEY(0x1000, 0, CO_OBJ_D___R_), CO_TUNSIGNED32, (CO_DATA)0 }, CO_OBJ_DICT_ENDMARK };
int main(int argc, char **argv)
{
    node_up(dict, 2, 1, 1000);
    if (argc > 1) {                                 /* F9: driver reports an expiry without pending timer */
        hw_run = 1; hw_cnt = 1; COTmrService(&node.Tmr); printf("F9: survived\n"); return 0;
    }
    int16_t id = COTmrCreate(&node.Tmr, 5, 0, cb, 0);
    for (int i = 0; i < 5; i++) { COTmrService(&node.Tmr); }      /* elapsed, not yet processed */
    int16_t r = COTmrDelete(&node.Tmr, id);                       /* F7 */
    COTmrProcess(&node.Tmr);
    printf("delete of the elapsed action returned %d, callback ran %d time(s) (expected 0 / 0)\n", r, fired);
    int n = 0; for (CO_TMR_TIME *t = node.Tmr.Free; t; t = t->Next) n++;
    printf("free events: %d of 16\n", n);
    return !(r == 0 && fired == 0 && n == 16);
}
