/* vw_node.h - pointer topology of the node world V_NODE, established by ASSIGNMENT
 * (never by assumption on nondet pointers, see DESIGN 3.2).  Scalars stay nondet
 * (goto-instrument --nondet-static) and are constrained by the WF_* predicates. */
#pragma once
#include "vw.h"
CO_IF_DRV V_DRV;
uint8_t   V_SDOBUF[CO_SSDO_N * CO_SDO_BUF_BYTE];
uint16_t  H_SDOCUR[CO_SSDO_N];        /* offset of Buf.Cur inside the server's slice */
_Bool     H_SDOFRM[CO_SSDO_N];        /* Frm latched (a request is being processed) or NULL */
CO_OBJ    V_SOBJ[CO_SSDO_N];          /* the entry a server's open transfer addresses (D-abs: any entry) */
_Bool     H_SDOOBJ[CO_SSDO_N];        /* transfer open (Obj != 0) */
CO_EMCY_TBL V_EMCYTBL[CO_EMCY_N];
_Bool     H_EMCYROOT;

/* specification-side set-up code: cbmc's built-in checks are not generated for it */
#pragma CPROVER check push
#pragma CPROVER check disable "pointer"
#pragma CPROVER check disable "bounds"
#pragma CPROVER check disable "pointer-overflow"
#pragma CPROVER check disable "signed-overflow"
#pragma CPROVER check disable "pointer-primitive"
#pragma CPROVER check disable "conversion"
#pragma CPROVER check disable "undefined-shift"
#pragma CPROVER check disable "div-by-zero"
#define VW_MAP8(a) do { (a)[0] = 0; (a)[1] = 0; (a)[2] = 0; (a)[3] = 0; (a)[4] = 0; (a)[5] = 0; (a)[6] = 0; (a)[7] = 0; } while (0)
static void vw_node_init(void)
{
    V_NODE.Dict.Node = &V_NODE;
    V_NODE.If.Node = &V_NODE;  V_NODE.If.Drv = &V_DRV;
    V_NODE.Emcy.Node = &V_NODE; V_NODE.Emcy.Root = H_EMCYROOT ? V_EMCYTBL : (CO_EMCY_TBL *)0;
    V_NODE.Nmt.Node = &V_NODE;  V_NODE.Nmt.HbCons = (CO_HBCONS *)0;
    V_NODE.Tmr.Node = &V_NODE;
    V_NODE.Tmr.APool = 0; V_NODE.Tmr.TPool = 0; V_NODE.Tmr.Acts = 0; V_NODE.Tmr.Free = 0; V_NODE.Tmr.Use = 0; V_NODE.Tmr.Elapsed = 0;
    V_NODE.SdoBuf = V_SDOBUF; V_SDOBUF_P = V_SDOBUF;
    for (int n = 0; n < CO_SSDO_N; n++) {
        V_NODE.Sdo[n].Node = &V_NODE;
        V_NODE.Sdo[n].Frm = H_SDOFRM[n] ? &V_FRM : (CO_IF_FRM *)0;
        V_NODE.Sdo[n].Obj = H_SDOOBJ[n] ? &V_SOBJ[n] : (CO_OBJ *)0;
        V_NODE.Sdo[n].Buf.Start = &V_SDOBUF[n * CO_SDO_BUF_BYTE];
        __CPROVER_assume(H_SDOCUR[n] <= CO_SDO_BUF_BYTE);
        V_NODE.Sdo[n].Buf.Cur = &V_SDOBUF[n * CO_SDO_BUF_BYTE] + H_SDOCUR[n];
    }
#if USE_CSDO
    for (int n = 0; n < CO_CSDO_N; n++) {
        V_NODE.CSdo[n].Node = &V_NODE; V_NODE.CSdo[n].Frm = 0;
        V_NODE.CSdo[n].Tfer.Csdo = &V_NODE.CSdo[n]; V_NODE.CSdo[n].Tfer.Buf = 0; V_NODE.CSdo[n].Tfer.Call = 0;
    }
#endif
    for (int n = 0; n < CO_RPDO_N; n++) {
        V_NODE.RPdo[n].Node = &V_NODE;
        VW_MAP8(V_NODE.RPdo[n].Map);
        V_NODE.Sync.RPdo[n] = 0;
    }
    for (int n = 0; n < CO_TPDO_N; n++) {
        V_NODE.TPdo[n].Node = &V_NODE;
        VW_MAP8(V_NODE.TPdo[n].Map);
        V_NODE.Sync.TPdo[n] = 0;
    }
    for (int n = 0; n < CO_TPDO_N * 8; n++) { V_NODE.TMap[n].Obj = 0; }
    V_NODE.Sync.Node = &V_NODE;
#if USE_LSS
    V_NODE.Lss.Node = &V_NODE;
#endif
}
#pragma CPROVER check pop
#define VW_NODE_INIT_UNWIND {"vw_node_init.0": CO_SSDO_N+1}
