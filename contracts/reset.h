/* reset.h - CONmtReset against the "fresh start" predicate (C20), plus the ordering clause of C18
 * (a stored LSS configuration is active before the services derive their identifiers from the node id).
 * Callees are replaced by the *_ord variants of their contracts: the proved contract plus a ghost
 * sequence stamp (G_ORD_x = ++G_ORD), which is instrumentation only. */
#pragma once
#include "vw.h"
#include "hal.h"
#include "nmt.h"
#include "sdo.h"
#include "dictv.h"
extern uint32_t G_ORD, G_ORD_LSSLOAD, G_ORD_LSSINIT, G_ORD_TMRCLEAR, G_ORD_NMTINIT, G_ORD_SDOINIT, G_ORD_CANRESET, G_ORD_EMCYRESET, G_ORD_SYNCINIT, G_ORD_BOOTUP, G_ORD_PARA_NODE, G_ORD_PARA_COM;
extern uint32_t G_PARARESET_NODE_N, G_PARARESET_COM_N;
#define STAMP(x) (G_ORD == __CPROVER_old(G_ORD) + 1 && (x) == G_ORD)

CO_ERR COLssLoad_ord(uint32_t *baudrate, uint8_t *nodeId)
__CPROVER_requires(baudrate == &V_NODE.Baudrate && nodeId == &V_NODE.NodeId)
__CPROVER_assigns(V_NODE.Baudrate, V_NODE.NodeId, G_ORD, G_ORD_LSSLOAD) __CPROVER_ensures(STAMP(G_ORD_LSSLOAD));
void COLssInit_ord(CO_LSS *lss, struct CO_NODE_T *node)
__CPROVER_requires(lss == &V_NODE.Lss && node == &V_NODE)
__CPROVER_assigns(V_NODE.Lss, V_NODE.Error, G_ORD, G_ORD_LSSINIT)
__CPROVER_ensures(STAMP(G_ORD_LSSINIT) && (V_NODE.Lss.Mode == CO_LSS_WAIT || V_NODE.Lss.Mode == CO_LSS_EXIT) && V_NODE.Lss.Tmr == -1 && V_NODE.Lss.Step == 0 && V_NODE.Lss.Flags == 0);
/* COTmrClear: deletes the heartbeat producer timer and the TPDO event/inhibit timers - and nothing else */
void COTmrClear_ord(CO_TMR *tmr)
__CPROVER_requires(tmr == &V_NODE.Tmr)
__CPROVER_assigns(V_NODE.Nmt.Tmr, V_NODE.TPdo, G_TMR_STATE, G_TMR_DELETE_N, G_TMR_LAST_DEL, G_TMR_WATCH_DEL_N, G_ORD, G_ORD_TMRCLEAR)
__CPROVER_ensures(STAMP(G_ORD_TMRCLEAR) && V_NODE.Nmt.Tmr == -1)
__CPROVER_ensures(G_TMR_WATCH_DEL_N - __CPROVER_old(G_TMR_WATCH_DEL_N) >= ((G_TMR_WATCH >= 0 && __CPROVER_old(V_NODE.Nmt.Tmr) == G_TMR_WATCH) ? 1u : 0u) && G_TMR_WATCH_DEL_N - __CPROVER_old(G_TMR_WATCH_DEL_N) <= 1u + 2u * CO_TPDO_N);
void CONmtInit_ord(CO_NMT *nmt, struct CO_NODE_T *node)
__CPROVER_requires(nmt == &V_NODE.Nmt && node == &V_NODE && (unsigned)V_NODE.Nmt.Mode < CO_MODE_NUM)
__CPROVER_assigns(V_NODE.Nmt.Node, V_NODE.Nmt.HbCons, V_NODE.Nmt.Mode, V_NODE.Nmt.Allowed, G_MODECHG_N, G_MODECHG_LAST, G_ORD, G_ORD_NMTINIT)
__CPROVER_ensures(STAMP(G_ORD_NMTINIT) && V_NODE.Nmt.Mode == CO_INIT && WF_NMT() && V_NODE.Nmt.HbCons == NULL && V_NODE.Nmt.Node == &V_NODE);
void COSdoInit_ord(CO_SDO *srv, struct CO_NODE_T *node)
__CPROVER_requires(srv == V_NODE.Sdo && node == &V_NODE && V_NODE.SdoBuf == V_SDOBUF_P)
__CPROVER_assigns(V_NODE.Sdo, G_ORD, G_ORD_SDOINIT)
__CPROVER_ensures(STAMP(G_ORD_SDOINIT) && WF_SDO_ALL() && SDO_IDLE(0) && SDO_IDLE(CO_SSDO_N - 1));
void COIfCanReset_ord(struct CO_IF_T *cif)
__CPROVER_requires(cif == &V_NODE.If) __CPROVER_assigns(G_CANCTL_N, G_ORD, G_ORD_CANRESET) __CPROVER_ensures(STAMP(G_ORD_CANRESET));
void COEmcyReset_ord(CO_EMCY *emcy, uint8_t silent)
__CPROVER_requires(emcy == &V_NODE.Emcy && silent != 0)
__CPROVER_assigns(V_NODE.Emcy.Err, V_NODE.Emcy.Cnt, G_DVB_VAL, G_DVB_WR_N, G_TYPE_STATE, G_ORD, G_ORD_EMCYRESET)
__CPROVER_ensures(STAMP(G_ORD_EMCYRESET) && V_NODE.Emcy.Err[0] == 0 && V_NODE.Emcy.Err[CO_EMCY_STORAGE - 1] == 0);
void COSyncInit_ord(CO_SYNC *sync, struct CO_NODE_T *node)
__CPROVER_requires(sync == &V_NODE.Sync && node == &V_NODE)
__CPROVER_assigns(V_NODE.Sync, G_ORD, G_ORD_SYNCINIT)
__CPROVER_ensures(STAMP(G_ORD_SYNCINIT) && V_NODE.Sync.Tmr == -1 && V_NODE.Sync.CobId == 0 && V_NODE.Sync.Cycle == 0 && V_NODE.Sync.Node == &V_NODE);
void CONmtBootup_ord(CO_NMT *nmt)
__CPROVER_requires(nmt == &V_NODE.Nmt && WF_NMT())
__CPROVER_assigns(V_NODE.Nmt.Mode, V_NODE.Nmt.Allowed, G_MODECHG_N, G_MODECHG_LAST, G_TX_N, G_TX_LAST, G_TX_K, V_NODE.Error, G_ORD, G_ORD_BOOTUP)
__CPROVER_ensures(STAMP(G_ORD_BOOTUP) && WF_NMT())
__CPROVER_ensures(__CPROVER_old(V_NODE.Nmt.Mode) == CO_INIT
    ? (V_NODE.Nmt.Mode == CO_PREOP && G_TX_N == __CPROVER_old(G_TX_N) + 1 && BOOTUP_FRAME(G_TX_LAST))
    : (V_NODE.Nmt.Mode == __CPROVER_old(V_NODE.Nmt.Mode) && G_TX_N == __CPROVER_old(G_TX_N)));
/* parameter reload through the reset function of 1010h (C17) */
CO_ERR COObjReset_ord(struct CO_OBJ_T *obj, struct CO_NODE_T *node, uint32_t para)
__CPROVER_requires(obj != NULL && node == &V_NODE)
__CPROVER_assigns(G_TYPE_STATE, G_PARARESET_NODE_N, G_PARARESET_COM_N, G_ORD, G_ORD_PARA_NODE, G_ORD_PARA_COM)
__CPROVER_ensures(G_ORD == __CPROVER_old(G_ORD) + 1)
__CPROVER_ensures(G_PARARESET_NODE_N == __CPROVER_old(G_PARARESET_NODE_N) + (para == CO_RESET_NODE ? 1 : 0) && G_PARARESET_COM_N == __CPROVER_old(G_PARARESET_COM_N) + (para == CO_RESET_COM ? 1 : 0))
__CPROVER_ensures((para == CO_RESET_NODE ==> G_ORD_PARA_NODE == G_ORD) && (para == CO_RESET_COM ==> G_ORD_PARA_COM == G_ORD));

#define RESET_KIND(type) ((type) == CO_RESET_NODE || (type) == CO_RESET_COM)
#define WAS_INIT() (__CPROVER_old(V_NODE.Nmt.Mode) == CO_INIT)
/* the contract CONmtReset is ENFORCED against here is the interface contract of nmt.h extended by the
 * fresh-start clauses; the interface contract (used by CONmtCheck) is its first part */
void CONmtReset_fresh(CO_NMT *nmt, CO_NMT_RESET type)
__CPROVER_requires(nmt == &V_NODE.Nmt && WF_NMT() && V_NODE.SdoBuf == V_SDOBUF_P && V_NODE.Nmt.Node == &V_NODE && RESET_KIND(type))
__CPROVER_requires(G_DV_KEY[0] == CO_DEV(0x1005, 0) && G_DV_KEY[1] == CO_DEV(0x1017, 0) && G_DNUM <= 1)
/* --- state machine: through INIT to PRE-OPERATIONAL, exactly one boot-up frame (none if it was initialising) --- */
__CPROVER_ensures(WF_NMT() && V_NODE.Nmt.Mode == (WAS_INIT() ? CO_INIT : CO_PREOP))
__CPROVER_ensures(G_TX_N == __CPROVER_old(G_TX_N) + (WAS_INIT() ? 0 : 1) && (!WAS_INIT() ==> BOOTUP_FRAME(G_TX_LAST)))
/* --- parameters of the reset type are reloaded (reset node: application and communication groups) --- */
__CPROVER_ensures(G_DNUM == 1 ==> (G_PARARESET_COM_N == __CPROVER_old(G_PARARESET_COM_N) + 1 && G_PARARESET_NODE_N == __CPROVER_old(G_PARARESET_NODE_N) + (type == CO_RESET_NODE ? 1 : 0)))
/* --- C18: the stored LSS configuration is loaded before any service derives identifiers from the node id, and before boot-up --- */
__CPROVER_ensures(G_ORD_LSSLOAD < G_ORD_SDOINIT && G_ORD_LSSLOAD < G_ORD_SYNCINIT && (!WAS_INIT() ==> G_ORD_LSSLOAD < G_ORD_BOOTUP) && G_ORD_LSSLOAD < G_ORD_LSSINIT)
__CPROVER_ensures(G_ORD_PARA_COM == 0 || G_ORD_PARA_COM < G_ORD_SDOINIT)
/* --- fresh start: SDO servers idle and enabled per 1200h, LSS waiting, emergencies cleared --- */
__CPROVER_ensures(WF_SDO_ALL() && SDO_IDLE(0) && SDO_IDLE(CO_SSDO_N - 1))
__CPROVER_ensures((V_NODE.Lss.Mode == CO_LSS_WAIT || V_NODE.Lss.Mode == CO_LSS_EXIT) && V_NODE.Lss.Tmr == -1)
__CPROVER_ensures(V_NODE.Emcy.Err[0] == 0 && V_NODE.Emcy.Err[CO_EMCY_STORAGE - 1] == 0)
/* --- fresh start: heartbeat producer running as configured by 1017h --- */
__CPROVER_ensures((G_DV_OK[1] && G_DV_VAL[1] != 0) ==> V_NODE.Nmt.Tmr >= 0)
/* --- fresh start: SYNC consumption / production as configured by 1005h --- */
__CPROVER_ensures(G_DV_OK[0] ==> V_NODE.Sync.CobId == G_DV_VAL[0])
/* --- fresh start: heartbeat consumers keep running as configured by 1016h (the chain is not dropped while entries are configured) --- */
__CPROVER_ensures(__CPROVER_old(V_NODE.Nmt.HbCons) != NULL ==> V_NODE.Nmt.HbCons != NULL)
/* --- no timer slot leaked: a stack timer that is forgotten has been deleted (ghost: one watched id) --- */
__CPROVER_ensures((G_TMR_WATCH >= 0 && __CPROVER_old(V_NODE.Sync.Tmr) == G_TMR_WATCH && V_NODE.Sync.Tmr != G_TMR_WATCH) ==> G_TMR_WATCH_DEL_N - __CPROVER_old(G_TMR_WATCH_DEL_N) >= 1)
__CPROVER_ensures((G_TMR_WATCH >= 0 && __CPROVER_old(V_NODE.Nmt.Tmr) == G_TMR_WATCH && V_NODE.Nmt.Tmr != G_TMR_WATCH) ==> G_TMR_WATCH_DEL_N - __CPROVER_old(G_TMR_WATCH_DEL_N) >= 1)
#if USE_CSDO
/* --- fresh start: SDO clients idle (a pending transfer is finalised, its time-out action deleted) --- */
__CPROVER_ensures(V_NODE.CSdo[0].State != CO_CSDO_STATE_BUSY)
#endif
__CPROVER_assigns(__CPROVER_object_whole(&V_NODE), G_TX_N, G_TX_LAST, G_TX_K, G_MODECHG_N, G_MODECHG_LAST, G_CANCTL_N, G_PDOINIT_N,
                  G_TMR_STATE, G_TMR_DELETE_N, G_TMR_LAST_DEL, G_TMR_WATCH_DEL_N, G_TYPE_STATE, G_DVB_VAL, G_DVB_WR_N, G_PARARESET_NODE_N, G_PARARESET_COM_N,
                  G_ORD, G_ORD_LSSLOAD, G_ORD_LSSINIT, G_ORD_TMRCLEAR, G_ORD_NMTINIT, G_ORD_SDOINIT, G_ORD_CANRESET, G_ORD_EMCYRESET, G_ORD_SYNCINIT, G_ORD_BOOTUP, G_ORD_PARA_NODE, G_ORD_PARA_COM);
