/* vw.h - the "verification world": one canonical instance of every structure the
 * stack is handed at initialisation.  All objects are nondeterministically
 * initialised (goto-instrument --nondet-static) and constrained only by the WF_*
 * predicates in the requires clauses.  See DESIGN.md 3.2 */
#pragma once
#include "co_core.h"

extern CO_NODE   V_NODE;          /* the node */
extern CO_IF_FRM V_FRM;           /* the frame being processed */
extern CO_OBJ    V_O;             /* one arbitrary object entry (leaf proofs of type functions) */
extern uint8_t   V_CELL[8];       /* referenced storage of V_O (integer types) */
extern uint8_t   V_BUF[8];        /* caller buffer for typed access */

/* ghost indices / counters (universally quantified by the solver) */
extern uint32_t  G_K;

#define DEV(k) ((uint32_t)(k) & 0xFFFFFF00u)
extern uint32_t  G_TRIG_N;        /* ghost: number of COTPdoTrigObj calls */

/* domain / string objects: V_O.Data == &V_DOM / &V_STR; storage and caller
 * buffers are heap objects of symbolic size allocated by the harness */
extern CO_OBJ_DOM V_DOM;
extern CO_OBJ_STR V_STR;
extern uint8_t  *H_BUF;           /* caller buffer */
extern uint32_t  H_BUFSZ;         /* its size */
extern uint32_t  H_SIZE;          /* size/len argument */
extern uint8_t   H_BK0, H_DK0;    /* snapshots old(H_BUF[G_K]) / old(storage[G_K]) for explicit-form frames */
extern uint8_t  *V_SDOBUF_P;      /* == V_SDOBUF (the SDO transfer buffer object) */
