/* definitions of the verification-world objects (included by harnesses once) */
#pragma once
#include "vw.h"
CO_NODE   V_NODE;
CO_IF_FRM V_FRM;
CO_OBJ    V_O;
uint8_t   V_CELL[8];
uint8_t   V_BUF[8];
uint32_t  G_K;
uint32_t  G_TRIG_N;
CO_OBJ_DOM V_DOM;
CO_OBJ_STR V_STR;
uint8_t  *H_BUF;
uint32_t  H_BUFSZ;
uint32_t  H_SIZE;
