/* definitions of the verification-world objects (included by harnesses once) */
#pragma once
#include "vw.h"
CO_NODE   V_NODE;
CO_IF_FRM V_FRM;
CO_OBJ    V_O;
uint8_t   V_CELL[8];
uint8_t   V_BUF[8];
uint32_t  G_K;
uint32_t  G_TRIG_N;
CO_OBJ_DOM V_DOM;
CO_OBJ_STR V_STR;
uint8_t  *H_BUF;
uint32_t  H_BUFSZ;
uint32_t  H_SIZE;
uint8_t   H_BK0, H_DK0;
uint32_t G_TYPE_STATE; _Bool G_EXP_ON; uint32_t G_EXP_SIZE; void *G_EXP_BUF; uint32_t G_EXP_PARA;
uint32_t G_RESET_N, G_READ_N, G_WRITE_N;
CO_OBJ  *G_DROOT; uint16_t G_DNUM;
uint32_t G_INIT_CNT, G_INIT_ALL;
/* allocate the symbolic-size dictionary of the world and link it (pointers by assignment) */
#include <stdlib.h>
#ifndef VW_DICT_SMALL
#define VW_DICT_SMALL 5
#endif
CO_OBJ V_DICTA[VW_DICT_SMALL + 1];
static void vw_dict_alloc(void)
{
#ifdef VW_DICT_SYMSIZE
    /* the dictionary layer itself: exactly Num+1 entries of symbolic Num <= 65535 (reads beyond the end marker are caught) */
    G_DROOT = malloc(((size_t)G_DNUM + 1) * sizeof(CO_OBJ));
#else
    /* callers of the dictionary: VW_DICT_SMALL symbolic entries (keys, flags, types, data all symbolic).
     * The callers reach the dictionary only through CODictFind (whose exactness for EVERY size is group
     * dict_find), so entries that a step never looks up are unobservable; VW_DICT_SMALL exceeds the
     * number of entries one step can name.  The real CODictFind runs inline over this dictionary: a
     * replaced CODictFind would return an unassigned pointer, which symex dereferences by a case split
     * over every object of the program (measured: 1.2M clauses per call).  Listed under assumptions. */
    __CPROVER_assume(G_DNUM <= VW_DICT_SMALL);
    G_DROOT = V_DICTA;
    /* well-formed: configured keys have non-zero index/sub and are strictly sorted (pairwise, constant bound) */
    for (int i = 0; i < VW_DICT_SMALL; i++) {
        if (i < G_DNUM) {
            __CPROVER_assume(DEV(V_DICTA[i].Key) != 0);
            if (i > 0) { __CPROVER_assume(DEV(V_DICTA[i - 1].Key) < DEV(V_DICTA[i].Key)); }
        }
    }
#endif
    __CPROVER_assume(G_DROOT != NULL);
    V_NODE.Dict.Root = G_DROOT; V_NODE.Dict.Num = G_DNUM; V_NODE.Dict.Node = &V_NODE;
    __CPROVER_assume(V_NODE.Dict.Max >= G_DNUM);
    __CPROVER_assume(G_DROOT[G_DNUM].Key == 0);
}
uint32_t G_TX_N; CO_IF_FRM G_TX_LAST; uint32_t G_TXK; CO_IF_FRM G_TX_K; uint32_t G_RECV_N;
uint32_t G_MODECHG_N; CO_MODE G_MODECHG_LAST; uint32_t G_RESETREQ_N; uint32_t G_CANCTL_N;
uint32_t G_LSS_STORE_N; uint32_t G_LSS_STORE_BAUD; uint8_t G_LSS_STORE_ID;
uint32_t G_TMR_STATE, G_TMR_CREATE_N, G_TMR_DELETE_N; int16_t G_TMR_LAST_ID; uint32_t G_TMR_LAST_START, G_TMR_LAST_CYCLE;
CO_TMR_FUNC G_TMR_LAST_FUNC; void *G_TMR_LAST_PARA; int16_t G_TMR_LAST_DEL; int16_t G_TMR_WATCH; uint32_t G_TMR_WATCH_DEL_N;
uint32_t G_PDOINIT_N;
uint32_t G_DV_KEY[4]; _Bool G_DV_OK[4]; uint32_t G_DV_VAL[4];
uint32_t G_RESET_N_NODE, G_RESET_N_COM; uint8_t *V_SDOBUF_P;
uint32_t G_OBJSIZE; CO_ERR G_RD_ERR, G_WR_ERR; uint8_t G_N;

/* specification lookup: index of the configured entry with exactly that index/sub, or -1 */
static int spec_find(uint32_t key)
{
    int r = -1;
    for (int i = 0; i < 8; i++) { if (i < G_DNUM && DEV(G_DROOT[i].Key) == DEV(key)) { r = i; } }
    return r;
}
int G_MUX_I, G_MUX0_I;
uint32_t G_DVB_KEY; _Bool G_DVB_OK; uint8_t G_DVB_VAL; uint32_t G_DVB_WR_N; uint32_t G_HISTADD_N; uint8_t G_HISTADD_ERR; CO_EMCY_USR *G_HISTADD_USR;
uint32_t G_ORD, G_ORD_LSSLOAD, G_ORD_LSSINIT, G_ORD_TMRCLEAR, G_ORD_NMTINIT, G_ORD_SDOINIT, G_ORD_CANRESET, G_ORD_EMCYRESET, G_ORD_SYNCINIT, G_ORD_BOOTUP, G_ORD_PARA_NODE, G_ORD_PARA_COM;
uint32_t G_PARARESET_NODE_N, G_PARARESET_COM_N; _Bool G_TMR_WATCH_IS_PDO;
