/* dictv.h - D-abs "value view" of the dictionary for upper layers: typed reads of up to four
 * watched keys deliver fixed (symbolic) results G_DV_*; all other keys are arbitrary.  The view
 * is definitional (the value of an object *is* what the typed read delivers); exactness of the
 * typed read itself is proved under C06 (groups dict_find, dict_typed_*). */
#pragma once
#include "vw.h"
#define VW_NV 4
extern uint32_t G_DV_KEY[VW_NV]; extern _Bool G_DV_OK[VW_NV]; extern uint32_t G_DV_VAL[VW_NV];
#define DV_CLAUSE(i, key, ret, out) \
    (DEV(key) == DEV(G_DV_KEY[i]) ==> (((ret) == CO_ERR_NONE) == G_DV_OK[i] && ((ret) == CO_ERR_NONE ==> (out) == G_DV_VAL[i])))

CO_ERR CODictRdLong(CO_DICT *cod, uint32_t key, uint32_t *val)
__CPROVER_requires(cod == &V_NODE.Dict && val != NULL)
__CPROVER_assigns(*val)
__CPROVER_ensures(DV_CLAUSE(0, key, __CPROVER_return_value, *val) && DV_CLAUSE(1, key, __CPROVER_return_value, *val) &&
                  DV_CLAUSE(2, key, __CPROVER_return_value, *val) && DV_CLAUSE(3, key, __CPROVER_return_value, *val))
__CPROVER_ensures(__CPROVER_return_value != CO_ERR_NONE ==> *val == __CPROVER_old(*val));
