/* dictv.h - D-abs "value view" of the dictionary for upper layers: typed reads of up to four
 * watched keys deliver fixed (symbolic) results G_DV_*; all other keys are arbitrary.  The view
 * is definitional (the value of an object *is* what the typed read delivers); exactness of the
 * typed read itself is proved under C06 (groups dict_find, dict_typed_*). */
#pragma once
#include "vw.h"
#define VW_NV 4
extern uint32_t G_DV_KEY[VW_NV]; extern _Bool G_DV_OK[VW_NV]; extern uint32_t G_DV_VAL[VW_NV];
#define DV_CLAUSE(i, key, ret, out) \
    (DEV(key) == DEV(G_DV_KEY[i]) ==> (((ret) == CO_ERR_NONE) == G_DV_OK[i] && ((ret) == CO_ERR_NONE ==> (out) == G_DV_VAL[i])))

CO_ERR CODictRdLong(CO_DICT *cod, uint32_t key, uint32_t *val)
__CPROVER_requires(cod == &V_NODE.Dict && val != NULL)
__CPROVER_assigns(*val)
__CPROVER_ensures(DV_CLAUSE(0, key, __CPROVER_return_value, *val) && DV_CLAUSE(1, key, __CPROVER_return_value, *val) &&
                  DV_CLAUSE(2, key, __CPROVER_return_value, *val) && DV_CLAUSE(3, key, __CPROVER_return_value, *val))
__CPROVER_ensures(__CPROVER_return_value != CO_ERR_NONE ==> *val == __CPROVER_old(*val));

/* byte-wide view (1001h error register): reads deliver G_DVB_VAL while G_DVB_OK, writes update it */
extern uint32_t G_DVB_KEY; extern _Bool G_DVB_OK; extern uint8_t G_DVB_VAL; extern uint32_t G_DVB_WR_N;
CO_ERR CODictRdByte(CO_DICT *cod, uint32_t key, uint8_t *val)
__CPROVER_requires(cod == &V_NODE.Dict && val != NULL)
__CPROVER_assigns(*val)
__CPROVER_ensures(DEV(key) == DEV(G_DVB_KEY) ==> ((__CPROVER_return_value == CO_ERR_NONE) == G_DVB_OK && (G_DVB_OK ==> *val == G_DVB_VAL)))
__CPROVER_ensures(__CPROVER_return_value != CO_ERR_NONE ==> *val == __CPROVER_old(*val));
CO_ERR CODictWrByte(CO_DICT *cod, uint32_t key, uint8_t val)
__CPROVER_requires(cod == &V_NODE.Dict)
__CPROVER_assigns(G_DVB_VAL, G_DVB_WR_N, G_TYPE_STATE)
__CPROVER_ensures(DEV(key) == DEV(G_DVB_KEY) ==> ((__CPROVER_return_value == CO_ERR_NONE) == G_DVB_OK && G_DVB_VAL == (G_DVB_OK ? val : __CPROVER_old(G_DVB_VAL)) &&
                  G_DVB_WR_N == __CPROVER_old(G_DVB_WR_N) + 1))
__CPROVER_ensures(DEV(key) != DEV(G_DVB_KEY) ==> (G_DVB_VAL == __CPROVER_old(G_DVB_VAL) && G_DVB_WR_N == __CPROVER_old(G_DVB_WR_N)));
