/* emcy.h - contracts of the emergency service (co_emcy.c), property C15.
 * Error register 1001h and EMCY COB-ID 1014h through the dictionary value view (dictv.h):
 * G_DVB_* = 1001h:00 (UNSIGNED8), G_DV_*[0] = 1014h:00 (UNSIGNED32).
 * Representation invariant WF_EMCY (spec function spec_emcy_wf, one pass over the CO_EMCY_N errors):
 *   Cnt[k] == #{ e active : Root[e].Reg == k }, register bit k (k>=1) <=> Cnt[k] > 0, bit 0 <=> any active. */
#pragma once
#include "vw.h"
#include "hal.h"
#include "nmt.h"
#include "dictv.h"

extern uint32_t G_HISTADD_N; extern uint8_t G_HISTADD_ERR; extern CO_EMCY_USR *G_HISTADD_USR;
#define EM (V_NODE.Emcy)
#define EMCY_CLIP(e) ((uint8_t)((e) >= CO_EMCY_N ? CO_EMCY_N - 1 : (e)))
#define EMCY_ACTIVE(e) (((EM.Err[(e) >> 3] >> ((e) & 7)) & 1) != 0)
#define EMCY_TBL_OK() (EM.Root == V_EMCYTBL_P && spec_emcy_tbl_ok())
extern CO_EMCY_TBL *V_EMCYTBL_P;
extern _Bool H_WAS_ACTIVE;

static _Bool spec_emcy_tbl_ok(void)
{
    _Bool ok = 1;
    for (int e = 0; e < CO_EMCY_N; e++) { if (V_EMCYTBL_P[e].Reg >= CO_EMCY_REG_NUM) { ok = 0; } }
    return ok;
}
/* register value that corresponds to the class counters */
static uint8_t spec_emcy_reg(void)
{
    uint8_t r = 0; _Bool any = 0;
    for (int k = 0; k < CO_EMCY_REG_NUM; k++) { if (EM.Cnt[k] > 0) { any = 1; if (k >= 1) { r |= (uint8_t)(1u << k); } } }
    if (any) { r |= 1; }
    return r;
}
static _Bool spec_emcy_wf(void)
{
    uint8_t cnt[CO_EMCY_REG_NUM] = {0};
    for (int e = 0; e < CO_EMCY_N; e++) { if (EMCY_ACTIVE(e)) { cnt[V_EMCYTBL_P[e].Reg & 7]++; } }
    _Bool ok = 1;
    for (int k = 0; k < CO_EMCY_REG_NUM; k++) { if (EM.Cnt[k] != cnt[k]) { ok = 0; } }
    return ok && (!G_DVB_OK || G_DVB_VAL == spec_emcy_reg());
}
#define WF_EMCY() (EM.Node == &V_NODE && EMCY_TBL_OK() && G_DVB_KEY == CO_DEV(0x1001, 0) && G_DV_KEY[0] == CO_DEV(0x1014, 0) && \
                   EM.Hist.Off <= EM.Hist.Max && EM.Hist.Num <= EM.Hist.Max && spec_emcy_wf())

void COEmcyHistAdd(CO_EMCY *emcy, uint8_t err, CO_EMCY_USR *usr)
__CPROVER_requires(emcy == &EM && err < CO_EMCY_N)
__CPROVER_assigns(G_HISTADD_N, G_HISTADD_ERR, G_HISTADD_USR, EM.Hist, G_TYPE_STATE)
__CPROVER_ensures(G_HISTADD_N == __CPROVER_old(G_HISTADD_N) + 1 && G_HISTADD_ERR == err && G_HISTADD_USR == usr)
__CPROVER_ensures(EM.Hist.Max == __CPROVER_old(EM.Hist.Max) && EM.Hist.Off <= EM.Hist.Max && EM.Hist.Num <= EM.Hist.Max);

/* the EMCY frame of a transition: code (0000h for a deactivation), error register, manufacturer bytes */
#define EMCY_FRAME_OK(e, usr, set) ( \
    G_TX_LAST.Identifier == G_DV_VAL[0] && G_TX_LAST.DLC == 8 && \
    G_TX_LAST.Data[0] == ((set) ? (uint8_t)V_EMCYTBL_P[e].Code : 0) && G_TX_LAST.Data[1] == ((set) ? (uint8_t)(V_EMCYTBL_P[e].Code >> 8) : 0) && \
    (G_DVB_OK ==> G_TX_LAST.Data[2] == G_DVB_VAL) && \
    G_TX_LAST.Data[3] == ((usr) ? (usr)->Emcy[0] : 0) && G_TX_LAST.Data[4] == ((usr) ? (usr)->Emcy[1] : 0) && G_TX_LAST.Data[5] == ((usr) ? (usr)->Emcy[2] : 0) && \
    G_TX_LAST.Data[6] == ((usr) ? (usr)->Emcy[3] : 0) && G_TX_LAST.Data[7] == ((usr) ? (usr)->Emcy[4] : 0))
/* frames go out only while 1014h is readable and valid (bit 31 clear) and the NMT state permits EMCY */
#define EMCY_TX_ON() ((V_NODE.Nmt.Allowed & CO_EMCY_ALLOWED) != 0 && G_DV_OK[0] && (G_DV_VAL[0] & 0x80000000u) == 0)

void COEmcySet(CO_EMCY *emcy, uint8_t err, CO_EMCY_USR *usr)
__CPROVER_requires(emcy == &EM && WF_EMCY() && WF_NMT() && (usr == NULL || __CPROVER_r_ok(usr, sizeof(CO_EMCY_USR))))
/* H_WAS_ACTIVE: pre-state ghost (cbmc's old() accepts plain lvalues only) */
__CPROVER_requires(H_WAS_ACTIVE == EMCY_ACTIVE(EMCY_CLIP(err)))
/* already active: nothing happens at all */
__CPROVER_ensures(H_WAS_ACTIVE ==>
    (G_TX_N == __CPROVER_old(G_TX_N) && G_HISTADD_N == __CPROVER_old(G_HISTADD_N) && G_DVB_WR_N == __CPROVER_old(G_DVB_WR_N) && G_DVB_VAL == __CPROVER_old(G_DVB_VAL)))
/* real transition: active afterwards, history entry for exactly this error, one frame if permitted */
__CPROVER_ensures(!H_WAS_ACTIVE ==>
    (EMCY_ACTIVE(EMCY_CLIP(err)) && G_HISTADD_N == __CPROVER_old(G_HISTADD_N) + 1 && G_HISTADD_ERR == EMCY_CLIP(err) && G_HISTADD_USR == usr &&
     G_TX_N == __CPROVER_old(G_TX_N) + (EMCY_TX_ON() ? 1 : 0) && (EMCY_TX_ON() ==> EMCY_FRAME_OK(EMCY_CLIP(err), usr, 1))))
__CPROVER_ensures(WF_EMCY())
__CPROVER_assigns(EM.Err, EM.Cnt, EM.Hist, G_DVB_VAL, G_DVB_WR_N, G_TYPE_STATE, G_HISTADD_N, G_HISTADD_ERR, G_HISTADD_USR, G_TX_N, G_TX_LAST, G_TX_K, V_NODE.Error);

void COEmcyClr(CO_EMCY *emcy, uint8_t err)
__CPROVER_requires(emcy == &EM && WF_EMCY() && WF_NMT() && H_WAS_ACTIVE == EMCY_ACTIVE(EMCY_CLIP(err)))
__CPROVER_ensures(!H_WAS_ACTIVE ==>
    (G_TX_N == __CPROVER_old(G_TX_N) && G_DVB_WR_N == __CPROVER_old(G_DVB_WR_N) && G_DVB_VAL == __CPROVER_old(G_DVB_VAL)))
__CPROVER_ensures(H_WAS_ACTIVE ==>
    (!EMCY_ACTIVE(EMCY_CLIP(err)) && G_TX_N == __CPROVER_old(G_TX_N) + (EMCY_TX_ON() ? 1 : 0) && (EMCY_TX_ON() ==> EMCY_FRAME_OK(EMCY_CLIP(err), (CO_EMCY_USR *)0, 0))))
__CPROVER_ensures(G_HISTADD_N == __CPROVER_old(G_HISTADD_N) && WF_EMCY())
__CPROVER_assigns(EM.Err, EM.Cnt, G_DVB_VAL, G_DVB_WR_N, G_TYPE_STATE, G_TX_N, G_TX_LAST, G_TX_K, V_NODE.Error);

int16_t COEmcyGet(CO_EMCY *emcy, uint8_t err)
__CPROVER_requires(emcy == &EM)
__CPROVER_ensures(__CPROVER_return_value == (EMCY_ACTIVE(EMCY_CLIP(err)) ? 1 : 0))
__CPROVER_assigns();

/* number of active errors: exact (sum of the class counters == number of set bits by WF_EMCY) */
static int spec_emcy_active_n(void)
{
    int n = 0;
    for (int e = 0; e < CO_EMCY_N; e++) { if (EMCY_ACTIVE(e)) { n++; } }
    return n;
}
int16_t COEmcyCnt(CO_EMCY *emcy)
__CPROVER_requires(emcy == &EM && WF_EMCY())
__CPROVER_ensures(__CPROVER_return_value == spec_emcy_active_n())
__CPROVER_assigns();

/* reset: everything cleared; one 0000h frame per previously active error unless silent */
void COEmcyReset(CO_EMCY *emcy, uint8_t silent)
__CPROVER_requires(emcy == &EM && WF_EMCY() && WF_NMT() && H_ACTIVE0 == spec_emcy_active_n())
__CPROVER_ensures(spec_emcy_active_n() == 0 && WF_EMCY() && (G_DVB_OK ==> G_DVB_VAL == 0))
__CPROVER_ensures(silent != 0 ==> G_TX_N == __CPROVER_old(G_TX_N))
__CPROVER_ensures((silent == 0 && EMCY_TX_ON()) ==> G_TX_N - __CPROVER_old(G_TX_N) == (uint32_t)H_ACTIVE0)
__CPROVER_ensures(G_HISTADD_N == __CPROVER_old(G_HISTADD_N))
__CPROVER_assigns(EM.Err, EM.Cnt, G_DVB_VAL, G_DVB_WR_N, G_TYPE_STATE, G_TX_N, G_TX_LAST, G_TX_K, V_NODE.Error);
extern int H_ACTIVE0;   /* number of active errors before the step (snapshot by the harness) */
