/* Contracts of the basic integer object types (co_integer8/16/32.c, static
 * functions: this header is -include'd in front of the TU together with the harness).
 * VW_W (1,2,4), VW_T (uint8_t..), VW_FN(x) (COTInt8##x) are set by the harness. */
#pragma once
#include "vw.h"

/* value stored in the entry V_O: direct in Data, or in the referenced cell */
#define INT_STORED()  (CO_IS_DIRECT(V_O.Key) ? (VW_T)V_O.Data : *(VW_T *)V_CELL)
#define INT_STORED_OLD()  (CO_IS_DIRECT(V_O.Key) ? (VW_T)__CPROVER_old(V_O.Data) : __CPROVER_old(*(VW_T *)V_CELL))
#define INT_NODEOFF() (CO_IS_NODEID(V_O.Key) ? (VW_T)V_NODE.NodeId : (VW_T)0)
/* entry shape: direct, or referencing the cell */
#define INT_WF(obj, node) \
    ((obj) == &V_O && (node) == &V_NODE && \
     (CO_IS_DIRECT(V_O.Key) || V_O.Data == (CO_DATA)V_CELL))

static uint32_t VW_FN(Size)(struct CO_OBJ_T *obj, struct CO_NODE_T *node, uint32_t width)
__CPROVER_requires(obj == &V_O && node == &V_NODE)
__CPROVER_requires(CO_IS_DIRECT(V_O.Key) || V_O.Data == (CO_DATA)0 || V_O.Data == (CO_DATA)V_CELL)
/* width is exact; a referenced entry without storage has no size */
__CPROVER_ensures(__CPROVER_return_value == ((CO_IS_DIRECT(V_O.Key) || V_O.Data != 0) ? VW_W : 0u))
__CPROVER_assigns();

static CO_ERR VW_FN(Read)(struct CO_OBJ_T *obj, struct CO_NODE_T *node, void *buffer, uint32_t size)
__CPROVER_requires(INT_WF(obj, node) && buffer == V_BUF)
__CPROVER_ensures(size == VW_W ==> (__CPROVER_return_value == CO_ERR_NONE &&
                   *(VW_T *)V_BUF == (VW_T)(INT_STORED() + INT_NODEOFF())))
__CPROVER_ensures(size != VW_W ==> __CPROVER_return_value == CO_ERR_BAD_ARG)
/* nothing but the caller's buffer changes (the object is unchanged) */
__CPROVER_assigns(__CPROVER_object_whole(V_BUF));

void COTPdoTrigObj(CO_TPDO *tpdo, struct CO_OBJ_T *obj)
__CPROVER_requires(tpdo == V_NODE.TPdo)
__CPROVER_assigns(G_TRIG_N)
__CPROVER_ensures(G_TRIG_N == __CPROVER_old(G_TRIG_N) + 1);

static CO_ERR VW_FN(Write)(struct CO_OBJ_T *obj, struct CO_NODE_T *node, void *buffer, uint32_t size)
__CPROVER_requires(INT_WF(obj, node) && buffer == V_BUF)
__CPROVER_ensures(size == VW_W ==> (__CPROVER_return_value == CO_ERR_NONE &&
                   INT_STORED() == (VW_T)(__CPROVER_old(*(VW_T *)V_BUF) - INT_NODEOFF())))
__CPROVER_ensures(size != VW_W ==> (__CPROVER_return_value == CO_ERR_BAD_ARG && G_TRIG_N == __CPROVER_old(G_TRIG_N)))
/* key and type of the entry never change */
__CPROVER_ensures(V_O.Key == __CPROVER_old(V_O.Key) && V_O.Type == __CPROVER_old(V_O.Type))
/* a referenced entry keeps its reference; only the addressed VW_W bytes of the cell change */
__CPROVER_ensures(!CO_IS_DIRECT(V_O.Key) ==> V_O.Data == __CPROVER_old(V_O.Data))
__CPROVER_ensures(V_CELL[4] == __CPROVER_old(V_CELL[4]) && (VW_W > 2 || V_CELL[2] == __CPROVER_old(V_CELL[2])) && (VW_W > 1 || V_CELL[1] == __CPROVER_old(V_CELL[1])))
/* linked TPDOs are triggered exactly when an asynchronous mappable object changes its stored value */
__CPROVER_ensures((G_TRIG_N == __CPROVER_old(G_TRIG_N) + 1) ==
    (size == VW_W && CO_IS_ASYNC(V_O.Key) != 0 && CO_IS_PDOMAP(V_O.Key) != 0 &&
     INT_STORED_OLD() != INT_STORED()))
__CPROVER_ensures(G_TRIG_N == __CPROVER_old(G_TRIG_N) || G_TRIG_N == __CPROVER_old(G_TRIG_N) + 1)
__CPROVER_assigns(V_O.Data, __CPROVER_object_whole(V_CELL), G_TRIG_N);
