/* Contracts of the object dictionary layer (co_dict.c). */
#pragma once
#include "co_core.h"

/* ghost index: universally quantified by the solver (chosen before the call) */
extern uint32_t G_K;

#define DEV(k) ((uint32_t)(k) & 0xFFFFFF00u)

/* Shape of a dictionary: Root valid for Num+1 entries, end marker at Num.
 * Sortedness/non-zero keys are the abstract predicate Sorted(cod), available
 * only through the instantiation lemma vw_sorted_inst(). */
#define WF_DICT_SHAPE(cod) \
    ((cod)->Num <= (cod)->Max && \
     __CPROVER_is_fresh((cod)->Root, ((size_t)(cod)->Num + 1) * sizeof(CO_OBJ)) && \
     (cod)->Root[(cod)->Num].Key == 0)

/* instantiation lemma of Sorted(cod): true by definition of a sorted,
 * end-marked dictionary whose configured entries have non-zero index/sub keys */
void vw_sorted_inst(CO_DICT *cod, int32_t i, int32_t j)
__CPROVER_requires(1)
__CPROVER_ensures((0 <= i && i < j && j < (int32_t)cod->Num) ==> DEV(cod->Root[i].Key) < DEV(cod->Root[j].Key))
__CPROVER_ensures((0 <= i && i < (int32_t)cod->Num) ==> DEV(cod->Root[i].Key) != 0)
__CPROVER_assigns();

CO_OBJ *CODictFind(CO_DICT *cod, uint32_t key)
__CPROVER_requires(__CPROVER_is_fresh(cod, sizeof(CO_DICT)))
__CPROVER_requires(WF_DICT_SHAPE(cod))
/* a result is an entry of the configured range (never the end marker) with exactly that index/sub */
__CPROVER_ensures(__CPROVER_return_value != NULL ==>
    (__CPROVER_same_object(__CPROVER_return_value, cod->Root) &&
     __CPROVER_POINTER_OFFSET(__CPROVER_return_value) % sizeof(CO_OBJ) == 0 &&
     __CPROVER_POINTER_OFFSET(__CPROVER_return_value) < (size_t)cod->Num * sizeof(CO_OBJ) &&
     DEV(__CPROVER_return_value->Key) == DEV(key)))
/* NULL only if no configured entry has that index/sub (ghost index G_K) */
/* (index 0000h/sub 0 names no object: WF dictionaries have no such entry) */
__CPROVER_ensures((__CPROVER_return_value == NULL && G_K < cod->Num && DEV(key) != 0) ==> DEV(cod->Root[G_K].Key) != DEV(key))
__CPROVER_assigns();

/* ---- loop contracts (injected at the loop by the driver, keyed function.ordinal) ---- */
#define VWL_dict_find \
 __CPROVER_assigns(start, end, center, obj, result) \
 __CPROVER_loop_invariant(0 <= start && start <= (int32_t)cod->Num && -1 <= end && end < (int32_t)cod->Num && result == NULL) \
 __CPROVER_loop_invariant((G_K < cod->Num && (int32_t)G_K < start) ==> DEV(cod->Root[G_K].Key) < pattern) \
 __CPROVER_loop_invariant((G_K < cod->Num && (int32_t)G_K > end) ==> DEV(cod->Root[G_K].Key) > pattern) \
 __CPROVER_decreases(end - start + 1)
