/* Contracts of the object dictionary layer (co_dict.c). */
#pragma once
#include "vw.h"

/* ghost index: universally quantified by the solver (chosen before the call) */


/* The dictionary of the verification world: G_DROOT/G_DNUM name its array and entry count
 * (the harness allocates Num+1 entries of symbolic Num and assigns the pointers).
 * Shape: Root valid for Num+1 entries, end marker at Num.  Sortedness / non-zero keys are the
 * abstract predicate Sorted(cod), available only through the instantiation lemma vw_sorted_inst(). */
extern CO_OBJ  *G_DROOT;
extern uint16_t G_DNUM;
#define WF_DICT_SHAPE(cod) \
    ((cod)->Root == G_DROOT && (cod)->Num == G_DNUM && G_DROOT != NULL && \
     __CPROVER_r_ok(G_DROOT, ((size_t)G_DNUM + 1) * sizeof(CO_OBJ)) && G_DROOT[G_DNUM].Key == 0)

/* instantiation lemma of Sorted(cod): true by definition of a sorted, end-marked dictionary
 * whose configured entries have non-zero index/sub keys */
void vw_sorted_inst(CO_DICT *cod, int32_t i, int32_t j)
__CPROVER_requires(1)
__CPROVER_ensures((0 <= i && i < j && j < (int32_t)cod->Num) ==> DEV(cod->Root[i].Key) < DEV(cod->Root[j].Key))
__CPROVER_ensures((0 <= i && i < (int32_t)cod->Num) ==> DEV(cod->Root[i].Key) != 0)
__CPROVER_assigns();

CO_OBJ *CODictFind(CO_DICT *cod, uint32_t key)
__CPROVER_requires(cod != NULL && __CPROVER_r_ok(cod, sizeof(CO_DICT)) && WF_DICT_SHAPE(cod))
/* a result is an entry of the configured range (never the end marker) with exactly that index/sub.
 * __CPROVER_pointer_in_range_dfcc is the pointer predicate that, where this contract REPLACES a
 * call, assigns the returned pointer (a pointer that is merely assumed equal to something is not
 * resolved by symex, see DESIGN 3.2) */
__CPROVER_ensures(__CPROVER_return_value != NULL ==>
    (G_DNUM > 0 && __CPROVER_pointer_in_range_dfcc(G_DROOT, __CPROVER_return_value, G_DROOT + (G_DNUM - 1)) &&
     DEV(__CPROVER_return_value->Key) == DEV(key)))
/* NULL only if no configured entry has that index/sub (ghost index G_K)
 * (index 0000h/sub 0 names no object: WF dictionaries have no such entry) */
__CPROVER_ensures((__CPROVER_return_value == NULL && G_K < G_DNUM && DEV(key) != 0) ==> DEV(G_DROOT[G_K].Key) != DEV(key))
/* keys are unique: if entry G_K has that index/sub, it is the one returned */
__CPROVER_ensures((G_K < G_DNUM && DEV(key) != 0 && DEV(G_DROOT[G_K].Key) == DEV(key)) ==> __CPROVER_return_value == G_DROOT + G_K)
__CPROVER_assigns();

/* ---- loop contracts (injected at the loop by the driver, keyed function.ordinal) ---- */
#define VWL_dict_find \
 __CPROVER_assigns(start, end, center, obj, result) \
 __CPROVER_loop_invariant(0 <= start && start <= (int32_t)cod->Num && -1 <= end && end < (int32_t)cod->Num && result == NULL) \
 __CPROVER_loop_invariant((G_K < cod->Num && (int32_t)G_K < start) ==> DEV(cod->Root[G_K].Key) < pattern) \
 __CPROVER_loop_invariant((G_K < cod->Num && (int32_t)G_K > end) ==> DEV(cod->Root[G_K].Key) > pattern) \
 __CPROVER_decreases(end - start + 1)

/* ---- CODictInit: Num = position of the first zero key, capped by max ---- */
int16_t CODictInit(CO_DICT *cod, CO_NODE *node, CO_OBJ *root, uint16_t max)
__CPROVER_requires(__CPROVER_is_fresh(cod, sizeof(CO_DICT)) && __CPROVER_is_fresh(node, sizeof(CO_NODE)))
__CPROVER_requires(max > 0 && max <= 32767)
/* the array the application hands over: max entries followed by the end marker (dictionary "max length") */
__CPROVER_requires(__CPROVER_is_fresh(root, ((size_t)max + 1) * sizeof(CO_OBJ)))
__CPROVER_ensures(__CPROVER_return_value >= 0 && (uint16_t)__CPROVER_return_value == cod->Num)
__CPROVER_ensures(cod->Num <= max && cod->Max == max && cod->Root == root && cod->Node == node)
__CPROVER_ensures(cod->Num < max ==> root[cod->Num].Key == 0)
__CPROVER_ensures(G_K < cod->Num ==> root[G_K].Key != 0)
__CPROVER_assigns(*cod);
#define VWL_dict_init \
 __CPROVER_assigns(num, obj) \
 __CPROVER_loop_invariant(num <= max && obj == root + num) \
 __CPROVER_loop_invariant(G_K < num ==> root[G_K].Key != 0) \
 __CPROVER_decreases(max - num)

/* ---- CODictObjInit: type-specific initialisation of every configured entry exactly once ----
 * Stated without a quantified precondition: n = number of COObjInit calls is the position of
 * the first zero key (Root[n].Key == 0, no zero key before n), each entry before n was
 * initialised exactly once (ghost index G_K).  n == Num then follows in the harness from the
 * dictionary invariant (vw_sorted_inst instance at n), see harness/dict_objinit.c. */
extern uint32_t G_INIT_CNT;   /* ghost: number of COObjInit calls for entry &Root[G_K] */
extern uint32_t G_INIT_ALL;   /* ghost: number of COObjInit calls at all */
CO_ERR COObjInit(struct CO_OBJ_T *obj, struct CO_NODE_T *node)
__CPROVER_requires(obj != NULL && __CPROVER_same_object(obj, G_DROOT))
__CPROVER_assigns(G_INIT_CNT, G_INIT_ALL)
__CPROVER_ensures(G_INIT_CNT == __CPROVER_old(G_INIT_CNT) + ((G_K <= G_DNUM && obj == G_DROOT + G_K) ? 1u : 0u))
__CPROVER_ensures(G_INIT_ALL == __CPROVER_old(G_INIT_ALL) + 1u);

CO_ERR CODictObjInit(CO_DICT *cod, CO_NODE *node)
__CPROVER_requires(cod != NULL && node != NULL && cod->Root == G_DROOT && cod->Num == G_DNUM)
__CPROVER_requires(__CPROVER_r_ok(G_DROOT, ((size_t)G_DNUM + 1) * sizeof(CO_OBJ)) && G_DROOT[G_DNUM].Key == 0)
__CPROVER_requires(G_INIT_CNT == 0 && G_INIT_ALL == 0)
__CPROVER_ensures(G_INIT_ALL <= G_DNUM && G_DROOT[G_INIT_ALL].Key == 0)
__CPROVER_ensures(G_K < G_INIT_ALL ==> (G_INIT_CNT == 1 && G_DROOT[G_K].Key != 0))
__CPROVER_assigns(G_INIT_CNT, G_INIT_ALL);
#define VWL_dict_objinit \
 __CPROVER_assigns(obj, err, result, G_INIT_CNT, G_INIT_ALL) \
 __CPROVER_loop_invariant(G_INIT_ALL <= G_DNUM && obj == G_DROOT + G_INIT_ALL) \
 __CPROVER_loop_invariant(G_K < G_INIT_ALL ==> (G_INIT_CNT == 1 && G_DROOT[G_K].Key != 0)) \
 __CPROVER_loop_invariant(G_K >= G_INIT_ALL ==> G_INIT_CNT == 0) \
 __CPROVER_decreases(G_DNUM - G_INIT_ALL)

/* ---- CODictRdBuffer / CODictWrBuffer: find the entry, then one buffer access "from the start"
 * with the caller's buffer and the caller's length, unchanged (argument expectation ghosts of obj.h:
 * the callee's requires fails if len is narrowed or another buffer is passed) ---- */
#include "obj.h"
#define DICT_BUF_CONTRACT(NAME, CNT, BOK) \
CO_ERR NAME(CO_DICT *cod, uint32_t key, uint8_t *buf, uint32_t len) \
__CPROVER_requires(buf == NULL || BOK(buf, len)) \
__CPROVER_requires(cod == &V_NODE.Dict && WF_DICT_SHAPE(cod) && cod->Node == &V_NODE) \
__CPROVER_requires(G_EXP_ON && G_EXP_SIZE == len && G_EXP_BUF == buf && G_EXP_PARA == 0) \
__CPROVER_ensures(buf == NULL ==> __CPROVER_return_value == CO_ERR_BAD_ARG) \
/* (which entry is accessed / NOT_FOUND exactness: CODictFind's contract, groups dict_find and dict_typed_*) */ \
__CPROVER_ensures(CNT == __CPROVER_old(CNT) || CNT == __CPROVER_old(CNT) + 1)
DICT_BUF_CONTRACT(CODictRdBuffer, G_READ_N, __CPROVER_w_ok)
__CPROVER_assigns(G_TYPE_STATE, G_READ_N, G_RESET_N, V_NODE.Sdo[0].Abort, V_NODE.Sdo[CO_SSDO_N - 1].Abort; buf != NULL: __CPROVER_object_whole(buf));
DICT_BUF_CONTRACT(CODictWrBuffer, G_WRITE_N, __CPROVER_r_ok)
__CPROVER_assigns(G_TYPE_STATE, G_WRITE_N, G_RESET_N, V_NODE.Sdo[0].Abort, V_NODE.Sdo[CO_SSDO_N - 1].Abort);
