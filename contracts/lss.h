/* lss.h - contract of the LSS slave (co_lss.c), property C18.
 * One step = COLssCheck on one frame.  History clauses ("arrive in this order") are carried by
 * ghost progress counters updated by the contract itself and tied to the implementation's
 * Step field by the representation invariant WF_LSS (proved inductive: requires + ensures).
 * Identity 1018h:1..4 as seen through the dictionary: G_ID_OK[k] (readable as UNSIGNED32) and
 * G_ID_VAL[k]; the harness computes them from the (D-lay) dictionary with the spec lookup. */
#pragma once
#include "vw.h"
#include "hal.h"
#include "nmt.h"

extern _Bool    G_ID_OK[5];
extern uint32_t G_ID_VAL[5];
extern uint8_t  G_SEL;     /* selective switch: number of frames vendor,product,revision received in order and matching */
extern uint8_t  G_REM;     /* identify remote slave: frames vendor,product,rev-low,rev-high,serial-low in order and in range */

#define LSS_RX 0x7E5u
#define LSS_TX 0x7E4u
#define FD(i)  (V_FRM.Data[i])
#define OFD(i) (__CPROVER_old(V_FRM.Data[i]))
#define OARG() ((uint32_t)OFD(1) | ((uint32_t)OFD(2) << 8) | ((uint32_t)OFD(3) << 16) | ((uint32_t)OFD(4) << 24))
#define ARG()  ((uint32_t)FD(1) | ((uint32_t)FD(2) << 8) | ((uint32_t)FD(3) << 16) | ((uint32_t)FD(4) << 24))
#define OMODE() (__CPROVER_old(V_NODE.Lss.Mode))
#define OCMD()  (OFD(0))
#define LSS_IS_FRAME() (__CPROVER_old(V_FRM.Identifier) == LSS_RX)
#define LSS_ACTIVE()   (OMODE() == CO_LSS_WAIT || OMODE() == CO_LSS_CONF)
#define LSS_RATE(i) ((i) == 0 ? 1000000u : (i) == 1 ? 800000u : (i) == 2 ? 500000u : (i) == 3 ? 250000u : (i) == 4 ? 125000u : \
                     (i) == 6 ? 50000u : (i) == 7 ? 20000u : (i) == 8 ? 10000u : 0u)
#define LSS_UNCHANGED() (V_NODE.Lss.Mode == OMODE() && V_NODE.Lss.Step == __CPROVER_old(V_NODE.Lss.Step) && \
    V_NODE.Lss.CfgNodeId == __CPROVER_old(V_NODE.Lss.CfgNodeId) && V_NODE.Lss.CfgBaudrate == __CPROVER_old(V_NODE.Lss.CfgBaudrate) && \
    V_NODE.Lss.Flags == __CPROVER_old(V_NODE.Lss.Flags) && V_NODE.Lss.Tmr == __CPROVER_old(V_NODE.Lss.Tmr))
#define FRM_UNCHANGED() (V_FRM.Identifier == __CPROVER_old(V_FRM.Identifier) && V_FRM.DLC == __CPROVER_old(V_FRM.DLC) && \
    FD(0) == OFD(0) && FD(1) == OFD(1) && FD(2) == OFD(2) && FD(3) == OFD(3) && FD(4) == OFD(4) && FD(5) == OFD(5) && FD(6) == OFD(6) && FD(7) == OFD(7))
#define IS_CONF_ONLY(c) ((c) == 21 || (c) == 19 || (c) == 17 || (c) == 23 || ((c) >= 90 && (c) <= 94))
#define IS_KNOWN(c) ((c) == 4 || ((c) >= 64 && (c) <= 67) || IS_CONF_ONLY(c) || ((c) >= 70 && (c) <= 76))

/* representation invariant: the implementation's Step agrees with the ghost history whenever either
 * claims progress of a selective switch (1..3, waiting state) or of an identify-remote-slave
 * dialogue (11..15).  "In this order" is read as consecutive frames of one dialogue: a frame of the
 * other dialogue, or a mismatching/out-of-order frame, restarts it; ignored frames do not. */
#define WF_LSS() ( \
    (V_NODE.Lss.Mode == CO_LSS_WAIT || V_NODE.Lss.Mode == CO_LSS_CONF || V_NODE.Lss.Mode == CO_LSS_EXIT) && G_SEL <= 3 && G_REM <= 5 && \
    ((V_NODE.Lss.Step >= 1 && V_NODE.Lss.Step <= 3) ==> G_SEL == V_NODE.Lss.Step) && (G_SEL >= 1 ==> V_NODE.Lss.Step == G_SEL) && \
    ((V_NODE.Lss.Step >= 11 && V_NODE.Lss.Step <= 15) ==> G_REM == V_NODE.Lss.Step - 10) && \
    (G_REM >= 1 ==> V_NODE.Lss.Step == G_REM + 10))

/* the same update written over explicit snapshots, for the harness */
#define H_ARG(f) ((uint32_t)(f).Data[1] | ((uint32_t)(f).Data[2] << 8) | ((uint32_t)(f).Data[3] << 16) | ((uint32_t)(f).Data[4] << 24))
/* ghost history update (specification): what the property calls "arrive in this order and all equal" */
#define SEL_MATCH(k) (G_ID_OK[k] && OARG() == G_ID_VAL[k])
#define G_SEL_NEXT() ((uint8_t)( \
    OCMD() == 64 ? (SEL_MATCH(1) ? 1 : 0) : \
    OCMD() == 65 ? ((__CPROVER_old(G_SEL) == 1 && SEL_MATCH(2)) ? 2 : 0) : \
    OCMD() == 66 ? ((__CPROVER_old(G_SEL) == 2 && SEL_MATCH(3)) ? 3 : 0) : \
    OCMD() == 67 ? (__CPROVER_old(G_SEL) == 3 ? 3 : 0) : (OCMD() >= 70 && OCMD() <= 75) ? 0 : (OCMD() == 21 && OMODE() == CO_LSS_CONF) ? 0 : __CPROVER_old(G_SEL)))
#define REM_OK(c) ( \
    (c) == 70 ? (G_ID_OK[1] && OARG() == G_ID_VAL[1]) : (c) == 71 ? (G_ID_OK[2] && OARG() == G_ID_VAL[2]) : \
    (c) == 72 ? (G_ID_OK[3] && OARG() <= G_ID_VAL[3]) : (c) == 73 ? (G_ID_OK[3] && OARG() >= G_ID_VAL[3]) : \
    (c) == 74 ? (G_ID_OK[4] && OARG() <= G_ID_VAL[4]) : (G_ID_OK[4] && OARG() >= G_ID_VAL[4]))
#define G_REM_NEXT() ((uint8_t)( \
    OCMD() == 70 ? (REM_OK(70) ? 1 : 0) : \
    (OCMD() >= 71 && OCMD() <= 74) ? ((__CPROVER_old(G_REM) == OCMD() - 70 && REM_OK(OCMD())) ? OCMD() - 69 : 0) : \
    OCMD() == 75 ? (__CPROVER_old(G_REM) == 5 ? 5 : 0) : __CPROVER_old(G_REM)))

int16_t COLssCheck(CO_LSS *lss, CO_IF_FRM *frm)
__CPROVER_requires(lss == &V_NODE.Lss && frm == &V_FRM && WF_LSS() && WF_NMT())
/* --- not an LSS request: untouched, handed on (result 0) --- */
__CPROVER_ensures(!LSS_IS_FRAME() ==> (__CPROVER_return_value == 0 && LSS_UNCHANGED() && FRM_UNCHANGED() && G_SEL == __CPROVER_old(G_SEL) && G_REM == __CPROVER_old(G_REM)))
/* --- LSS requests are never passed on; a response is a single frame on 7E4h --- */
__CPROVER_ensures(LSS_IS_FRAME() ==> (__CPROVER_return_value == 1 || __CPROVER_return_value == -1))
__CPROVER_ensures(__CPROVER_return_value == 1 ==> V_FRM.Identifier == LSS_TX)
__CPROVER_ensures((LSS_IS_FRAME() && __CPROVER_return_value == -1) ==> FRM_UNCHANGED())
/* --- slave not participating (identity object missing) or unknown command: nothing happens --- */
__CPROVER_ensures((LSS_IS_FRAME() && (!LSS_ACTIVE() || !IS_KNOWN(OCMD()))) ==> (__CPROVER_return_value == -1 && LSS_UNCHANGED()))
/* --- switch state global: the state named in the request --- */
__CPROVER_ensures((LSS_IS_FRAME() && LSS_ACTIVE() && OCMD() == 4) ==>
    (__CPROVER_return_value == -1 && (OFD(1) == 1 ==> V_NODE.Lss.Mode == CO_LSS_CONF) && (OFD(1) == 0 ==> V_NODE.Lss.Mode == CO_LSS_WAIT) &&
     (V_NODE.Lss.Mode == CO_LSS_CONF || V_NODE.Lss.Mode == CO_LSS_WAIT)))
/* --- configuration, inquiry, store, activate: only in configuration state, ignored in waiting state --- */
__CPROVER_ensures((LSS_IS_FRAME() && OMODE() == CO_LSS_WAIT && IS_CONF_ONLY(OCMD())) ==>
    (__CPROVER_return_value == -1 && LSS_UNCHANGED() && G_LSS_STORE_N == __CPROVER_old(G_LSS_STORE_N) && V_NODE.Nmt.Mode == __CPROVER_old(V_NODE.Nmt.Mode)))
/* --- switch state selective: only in waiting state; 44h and configuration state exactly when
 *     vendor, product, revision, serial arrived in this order and all equal 1018h --- */
__CPROVER_ensures((LSS_IS_FRAME() && OMODE() == CO_LSS_CONF && OCMD() >= 64 && OCMD() <= 67) ==> (__CPROVER_return_value == -1 && LSS_UNCHANGED()))
__CPROVER_ensures((LSS_IS_FRAME() && OMODE() == CO_LSS_WAIT && OCMD() >= 64 && OCMD() <= 66) ==> (__CPROVER_return_value == -1 && V_NODE.Lss.Mode == CO_LSS_WAIT))
__CPROVER_ensures((LSS_IS_FRAME() && OMODE() == CO_LSS_WAIT && OCMD() == 67) ==>
    ((__CPROVER_return_value == 1) == (__CPROVER_old(G_SEL) == 3 && SEL_MATCH(4)) &&
     (__CPROVER_return_value == 1 ==> (V_NODE.Lss.Mode == CO_LSS_CONF && FD(0) == 0x44 && FD(1) == 0 && FD(2) == 0 && FD(3) == 0 && FD(4) == 0 && FD(5) == 0 && FD(6) == 0 && FD(7) == 0)) &&
     (__CPROVER_return_value == -1 ==> V_NODE.Lss.Mode == CO_LSS_WAIT)))
/* --- identify remote slave: 4Fh exactly when the identity lies within the requested ranges --- */
__CPROVER_ensures((LSS_IS_FRAME() && LSS_ACTIVE() && OCMD() >= 70 && OCMD() <= 74) ==> (__CPROVER_return_value == -1 && V_NODE.Lss.Mode == OMODE()))
__CPROVER_ensures((LSS_IS_FRAME() && LSS_ACTIVE() && OCMD() == 75) ==>
    ((__CPROVER_return_value == 1) == (__CPROVER_old(G_REM) == 5 && REM_OK(75)) && V_NODE.Lss.Mode == OMODE() &&
     (__CPROVER_return_value == 1 ==> (FD(0) == 0x4F && FD(1) == 0 && FD(2) == 0 && FD(3) == 0 && FD(4) == 0 && FD(5) == 0 && FD(6) == 0 && FD(7) == 0))))
/* --- configure node id: 1..127 and 255 only --- */
__CPROVER_ensures((LSS_IS_FRAME() && OMODE() == CO_LSS_CONF && OCMD() == 17) ==>
    (__CPROVER_return_value == 1 && FD(0) == 17 &&
     (((OFD(1) >= 1 && OFD(1) <= 127) || OFD(1) == 255) ? (FD(1) == 0 && V_NODE.Lss.CfgNodeId == OFD(1))
                                                         : (FD(1) == 1 && V_NODE.Lss.CfgNodeId == __CPROVER_old(V_NODE.Lss.CfgNodeId))) &&
     V_NODE.Lss.Mode == CO_LSS_CONF && V_NODE.Lss.CfgBaudrate == __CPROVER_old(V_NODE.Lss.CfgBaudrate)))
/* --- configure bit timing: table 0, index with a defined rate --- */
__CPROVER_ensures((LSS_IS_FRAME() && OMODE() == CO_LSS_CONF && OCMD() == 19) ==>
    (__CPROVER_return_value == 1 && FD(0) == 19 && FD(2) == 0 &&
     ((OFD(1) == 0 && LSS_RATE(OFD(2)) != 0) ? (FD(1) == 0 && V_NODE.Lss.CfgBaudrate == LSS_RATE(OFD(2))) : FD(1) == 1) &&
     V_NODE.Lss.Mode == CO_LSS_CONF && V_NODE.Lss.CfgNodeId == __CPROVER_old(V_NODE.Lss.CfgNodeId)))
/* --- store configuration: the store callback gets exactly the configured values, error code 2 on failure --- */
__CPROVER_ensures((LSS_IS_FRAME() && OMODE() == CO_LSS_CONF && OCMD() == 23) ==>
    (__CPROVER_return_value == 1 && FD(0) == 23 && (FD(1) == 0 || FD(1) == 2) && G_LSS_STORE_N == __CPROVER_old(G_LSS_STORE_N) + 1 &&
     G_LSS_STORE_BAUD == __CPROVER_old(V_NODE.Lss.CfgBaudrate) && G_LSS_STORE_ID == __CPROVER_old(V_NODE.Lss.CfgNodeId) &&
     (FD(1) == 0 ==> (V_NODE.Lss.Flags & CO_LSS_STORED) != 0) && V_NODE.Lss.Mode == CO_LSS_CONF))
__CPROVER_ensures(!(LSS_IS_FRAME() && OMODE() == CO_LSS_CONF && OCMD() == 23) ==> G_LSS_STORE_N == __CPROVER_old(G_LSS_STORE_N))
/* --- inquire identity / node id --- */
__CPROVER_ensures((LSS_IS_FRAME() && OMODE() == CO_LSS_CONF && OCMD() >= 90 && OCMD() <= 93) ==>
    (__CPROVER_return_value == 1 && FD(0) == OCMD() && ARG() == (G_ID_OK[OCMD() - 89] ? G_ID_VAL[OCMD() - 89] : 0u) && LSS_UNCHANGED()))
__CPROVER_ensures((LSS_IS_FRAME() && OMODE() == CO_LSS_CONF && OCMD() == 94) ==>
    (__CPROVER_return_value == 1 && FD(0) == 94 && FD(1) == V_NODE.NodeId && LSS_UNCHANGED()))
/* --- activate bit timing: node leaves the bus (NMT INIT), switch delay timer 2 x delay --- */
__CPROVER_ensures((LSS_IS_FRAME() && OMODE() == CO_LSS_CONF && OCMD() == 21) ==> (__CPROVER_return_value == -1 && V_NODE.Nmt.Mode == CO_INIT && V_NODE.Lss.Mode == CO_LSS_CONF))
/* (ghost history update G_SEL/G_REM and preservation of WF_LSS: asserted by the harness right
 *  after the call - the code has no ghost statements, the specification advances the history) */
__CPROVER_ensures(WF_NMT())
__CPROVER_ensures(G_TX_N == __CPROVER_old(G_TX_N))
__CPROVER_assigns(V_NODE.Lss.Mode, V_NODE.Lss.Step, V_NODE.Lss.CfgNodeId, V_NODE.Lss.CfgBaudrate, V_NODE.Lss.Flags, V_NODE.Lss.Tmr,
                  V_FRM, G_LSS_STORE_N, G_LSS_STORE_BAUD, G_LSS_STORE_ID,
                  V_NODE.Nmt.Mode, V_NODE.Nmt.Allowed, G_MODECHG_N, G_MODECHG_LAST, G_CANCTL_N,
                  G_TMR_STATE, G_TMR_CREATE_N, G_TMR_LAST_ID, G_TMR_LAST_START, G_TMR_LAST_CYCLE, G_TMR_LAST_FUNC, G_TMR_LAST_PARA, V_NODE.Error);
