/* nmt.h - contracts of co_nmt.c (C09) */
#pragma once
#include "vw.h"
#include "hal.h"
#include "tmr_if.h"

/* allowed services per NMT state (CiA 301 / property C09) */
#define NMT_ALLOWED_OF(mode) ((uint8_t)( \
    (mode) == CO_INIT        ? CO_BOOT_ALLOWED : \
    (mode) == CO_PREOP       ? (CO_SDO_ALLOWED | CO_SYNC_ALLOWED | CO_TIME_ALLOWED | CO_EMCY_ALLOWED | CO_NMT_ALLOWED) : \
    (mode) == CO_OPERATIONAL ? (CO_PDO_ALLOWED | CO_SDO_ALLOWED | CO_SYNC_ALLOWED | CO_TIME_ALLOWED | CO_EMCY_ALLOWED | CO_NMT_ALLOWED) : \
    (mode) == CO_STOP        ? CO_NMT_ALLOWED : 0))
/* the gating mask always reflects the state */
#define WF_NMT() (V_NODE.Nmt.Mode < CO_MODE_NUM && V_NODE.Nmt.Allowed == NMT_ALLOWED_OF(V_NODE.Nmt.Mode))

extern uint32_t G_PDOINIT_N;     /* ghost: number of (COTPdoInit;CORPdoInit) activations */
void COTPdoInit(CO_TPDO *pdo, struct CO_NODE_T *node)
__CPROVER_requires(pdo == V_NODE.TPdo && node == &V_NODE)
__CPROVER_assigns(V_NODE.TPdo, V_NODE.TMap, V_NODE.Sync, V_NODE.Error, G_TMR_STATE, G_TMR_CREATE_N, G_TMR_DELETE_N, G_PDOINIT_N)
__CPROVER_ensures(G_PDOINIT_N == __CPROVER_old(G_PDOINIT_N) + 1);
void CORPdoInit(CO_RPDO *pdo, struct CO_NODE_T *node)
__CPROVER_requires(pdo == V_NODE.RPdo && node == &V_NODE)
__CPROVER_assigns(V_NODE.RPdo, V_NODE.Sync, V_NODE.Error);

void CONmtSetMode(CO_NMT *nmt, CO_MODE mode)
__CPROVER_requires(nmt == &V_NODE.Nmt && mode < CO_MODE_NUM)
__CPROVER_ensures(V_NODE.Nmt.Mode == mode && V_NODE.Nmt.Allowed == NMT_ALLOWED_OF(mode))
/* the application is told exactly when the state changes; PDOs are (re)activated exactly on entering OPERATIONAL */
__CPROVER_ensures(G_MODECHG_N == __CPROVER_old(G_MODECHG_N) + (__CPROVER_old(V_NODE.Nmt.Mode) != mode ? 1 : 0))
__CPROVER_ensures(__CPROVER_old(V_NODE.Nmt.Mode) != mode ==> G_MODECHG_LAST == mode)
__CPROVER_ensures(G_PDOINIT_N == __CPROVER_old(G_PDOINIT_N) + ((__CPROVER_old(V_NODE.Nmt.Mode) != mode && mode == CO_OPERATIONAL) ? 1 : 0))
__CPROVER_ensures(G_TX_N == __CPROVER_old(G_TX_N))
__CPROVER_assigns(V_NODE.Nmt.Mode, V_NODE.Nmt.Allowed, G_MODECHG_N, G_MODECHG_LAST;
                  mode == CO_OPERATIONAL: V_NODE.TPdo, V_NODE.RPdo, V_NODE.TMap, V_NODE.Sync, V_NODE.Error, G_TMR_STATE, G_TMR_CREATE_N, G_TMR_DELETE_N, G_PDOINIT_N);

uint8_t CONmtGetNodeId(CO_NMT *nmt)
__CPROVER_requires(nmt == &V_NODE.Nmt)
__CPROVER_ensures(__CPROVER_return_value == V_NODE.NodeId)
__CPROVER_assigns();

CO_MODE CONmtGetMode(CO_NMT *nmt)
__CPROVER_requires(nmt == &V_NODE.Nmt)
__CPROVER_ensures(__CPROVER_return_value == V_NODE.Nmt.Mode)
__CPROVER_assigns();
