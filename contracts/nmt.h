/* nmt.h - contracts of co_nmt.c (C09) */
#pragma once
#include "vw.h"
#include "hal.h"
#include "tmr_if.h"

/* allowed services per NMT state (CiA 301 / property C09) */
#define NMT_ALLOWED_OF(mode) ((uint8_t)( \
    (mode) == CO_INIT        ? CO_BOOT_ALLOWED : \
    (mode) == CO_PREOP       ? (CO_SDO_ALLOWED | CO_SYNC_ALLOWED | CO_TIME_ALLOWED | CO_EMCY_ALLOWED | CO_NMT_ALLOWED) : \
    (mode) == CO_OPERATIONAL ? (CO_PDO_ALLOWED | CO_SDO_ALLOWED | CO_SYNC_ALLOWED | CO_TIME_ALLOWED | CO_EMCY_ALLOWED | CO_NMT_ALLOWED) : \
    (mode) == CO_STOP        ? CO_NMT_ALLOWED : 0))
/* the gating mask always reflects the state */
#define WF_NMT() ((unsigned)V_NODE.Nmt.Mode < CO_MODE_NUM && V_NODE.Nmt.Allowed == NMT_ALLOWED_OF(V_NODE.Nmt.Mode))

extern uint32_t G_PDOINIT_N;     /* ghost: number of (COTPdoInit;CORPdoInit) activations */
void COTPdoInit(CO_TPDO *pdo, struct CO_NODE_T *node)
__CPROVER_requires(pdo == V_NODE.TPdo && node == &V_NODE)
__CPROVER_assigns(V_NODE.TPdo, V_NODE.TMap, V_NODE.Sync, V_NODE.Error, G_TMR_STATE, G_TMR_CREATE_N, G_TMR_DELETE_N, G_PDOINIT_N)
__CPROVER_ensures(G_PDOINIT_N == __CPROVER_old(G_PDOINIT_N) + 1);
void CORPdoInit(CO_RPDO *pdo, struct CO_NODE_T *node)
__CPROVER_requires(pdo == V_NODE.RPdo && node == &V_NODE)
__CPROVER_assigns(V_NODE.RPdo, V_NODE.Sync, V_NODE.Error);

void CONmtSetMode(CO_NMT *nmt, CO_MODE mode)
__CPROVER_requires(nmt == &V_NODE.Nmt && (unsigned)mode < CO_MODE_NUM)
__CPROVER_ensures(V_NODE.Nmt.Mode == mode && V_NODE.Nmt.Allowed == NMT_ALLOWED_OF(mode))
/* the application is told exactly when the state changes; PDOs are (re)activated exactly on entering OPERATIONAL */
__CPROVER_ensures(G_MODECHG_N == __CPROVER_old(G_MODECHG_N) + (__CPROVER_old(V_NODE.Nmt.Mode) != mode ? 1 : 0))
__CPROVER_ensures(__CPROVER_old(V_NODE.Nmt.Mode) != mode ==> G_MODECHG_LAST == mode)
__CPROVER_ensures(G_PDOINIT_N == __CPROVER_old(G_PDOINIT_N) + ((__CPROVER_old(V_NODE.Nmt.Mode) != mode && mode == CO_OPERATIONAL) ? 1 : 0))
__CPROVER_ensures(G_TX_N == __CPROVER_old(G_TX_N))
__CPROVER_assigns(V_NODE.Nmt.Mode, V_NODE.Nmt.Allowed, G_MODECHG_N, G_MODECHG_LAST;
                  mode == CO_OPERATIONAL: V_NODE.TPdo, V_NODE.RPdo, V_NODE.TMap, V_NODE.Sync, V_NODE.Error, G_TMR_STATE, G_TMR_CREATE_N, G_TMR_DELETE_N, G_PDOINIT_N);

uint8_t CONmtGetNodeId(CO_NMT *nmt)
__CPROVER_requires(nmt == &V_NODE.Nmt)
__CPROVER_ensures(__CPROVER_return_value == V_NODE.NodeId)
__CPROVER_assigns();

CO_MODE CONmtGetMode(CO_NMT *nmt)
__CPROVER_requires(nmt == &V_NODE.Nmt)
__CPROVER_ensures(__CPROVER_return_value == V_NODE.Nmt.Mode)
__CPROVER_assigns();

/* ---- CONmtReset: interface contract (proved under C20, group nmt_reset) ----
 * reset application (129) / communication (130): the node passes through INIT and boots up again:
 * exactly one boot-up frame if it was not already initialising */
extern uint32_t G_RESET_N_NODE, G_RESET_N_COM;   /* ghost: resets performed by type */
#define BOOTUP_FRAME(f) ((f).Identifier == 0x700u + V_NODE.NodeId && (f).DLC == 1 && (f).Data[0] == 0)
void CONmtReset(CO_NMT *nmt, CO_NMT_RESET type)
__CPROVER_requires(nmt == &V_NODE.Nmt && WF_NMT())
__CPROVER_ensures(WF_NMT())
__CPROVER_ensures((type == CO_RESET_NODE || type == CO_RESET_COM) ==>
    (V_NODE.Nmt.Mode == (__CPROVER_old(V_NODE.Nmt.Mode) == CO_INIT ? CO_INIT : CO_PREOP) &&
     G_TX_N == __CPROVER_old(G_TX_N) + (__CPROVER_old(V_NODE.Nmt.Mode) == CO_INIT ? 0 : 1) &&
     (__CPROVER_old(V_NODE.Nmt.Mode) != CO_INIT ==> BOOTUP_FRAME(G_TX_LAST))))
__CPROVER_ensures(G_RESET_N_NODE == __CPROVER_old(G_RESET_N_NODE) + (type == CO_RESET_NODE ? 1 : 0))
__CPROVER_ensures(G_RESET_N_COM == __CPROVER_old(G_RESET_N_COM) + (type == CO_RESET_COM ? 1 : 0))
__CPROVER_assigns(__CPROVER_object_whole(&V_NODE), __CPROVER_object_whole(V_SDOBUF_P), G_TX_N, G_TX_LAST, G_TX_K, G_MODECHG_N, G_MODECHG_LAST, G_CANCTL_N,
                  G_TMR_STATE, G_TMR_DELETE_N, G_TMR_LAST_DEL, G_TMR_WATCH_DEL_N, G_TYPE_STATE, G_RESET_N_NODE, G_RESET_N_COM, G_PDOINIT_N);

/* ---- CONmtBootup: boot-up only from INIT, exactly one frame 700h+id / 00h ---- */
void CONmtBootup(CO_NMT *nmt)
__CPROVER_requires(nmt == &V_NODE.Nmt && WF_NMT())
__CPROVER_ensures(WF_NMT())
__CPROVER_ensures(__CPROVER_old(V_NODE.Nmt.Mode) == CO_INIT
    ? (V_NODE.Nmt.Mode == CO_PREOP && G_TX_N == __CPROVER_old(G_TX_N) + 1 && BOOTUP_FRAME(G_TX_LAST) && G_MODECHG_N == __CPROVER_old(G_MODECHG_N) + 1)
    : (V_NODE.Nmt.Mode == __CPROVER_old(V_NODE.Nmt.Mode) && G_TX_N == __CPROVER_old(G_TX_N) && G_MODECHG_N == __CPROVER_old(G_MODECHG_N)))
__CPROVER_assigns(V_NODE.Nmt.Mode, V_NODE.Nmt.Allowed, G_MODECHG_N, G_MODECHG_LAST, G_TX_N, G_TX_LAST, G_TX_K, V_NODE.Error);

/* ---- CONmtCheck: the CiA 301 slave state machine, one received frame ---- */
#define NMT_ADDRESSED() (__CPROVER_old(V_FRM.Data[1]) == V_NODE_ID0 || __CPROVER_old(V_FRM.Data[1]) == 0)
#define V_NODE_ID0 (__CPROVER_old(V_NODE.NodeId))
#define NMT_CS() (__CPROVER_old(V_FRM.Data[0]))
#define NMT_UNCHANGED() (V_NODE.Nmt.Mode == __CPROVER_old(V_NODE.Nmt.Mode) && V_NODE.Nmt.Allowed == __CPROVER_old(V_NODE.Nmt.Allowed) && \
    G_MODECHG_N == __CPROVER_old(G_MODECHG_N) && G_TX_N == __CPROVER_old(G_TX_N) && G_RESETREQ_N == __CPROVER_old(G_RESETREQ_N) && \
    G_RESET_N_NODE == __CPROVER_old(G_RESET_N_NODE) && G_RESET_N_COM == __CPROVER_old(G_RESET_N_COM))
int16_t CONmtCheck(CO_NMT *nmt, CO_IF_FRM *frm)
__CPROVER_requires(nmt == &V_NODE.Nmt && frm == &V_FRM && WF_NMT())
__CPROVER_ensures(WF_NMT())
/* only identifier 0 is an NMT command; it is always claimed */
__CPROVER_ensures(__CPROVER_old(V_FRM.Identifier) != 0 ==> (__CPROVER_return_value == -1 && NMT_UNCHANGED()))
__CPROVER_ensures(__CPROVER_old(V_FRM.Identifier) == 0 ==> __CPROVER_return_value == 0)
/* commands for another node id, and unknown command specifiers, change nothing */
__CPROVER_ensures((__CPROVER_old(V_FRM.Identifier) == 0 && !NMT_ADDRESSED()) ==> NMT_UNCHANGED())
__CPROVER_ensures((__CPROVER_old(V_FRM.Identifier) == 0 && NMT_CS() != 1 && NMT_CS() != 2 && NMT_CS() != 128 && NMT_CS() != 129 && NMT_CS() != 130) ==> NMT_UNCHANGED())
/* start / stop / enter pre-operational (node id 0 addresses every node) */
__CPROVER_ensures((__CPROVER_old(V_FRM.Identifier) == 0 && NMT_ADDRESSED() && (NMT_CS() == 1 || NMT_CS() == 2 || NMT_CS() == 128)) ==>
    (V_NODE.Nmt.Mode == (NMT_CS() == 1 ? CO_OPERATIONAL : NMT_CS() == 2 ? CO_STOP : CO_PREOP) && G_TX_N == __CPROVER_old(G_TX_N) &&
     G_RESETREQ_N == __CPROVER_old(G_RESETREQ_N) && G_RESET_N_NODE == __CPROVER_old(G_RESET_N_NODE) && G_RESET_N_COM == __CPROVER_old(G_RESET_N_COM)))
/* reset node / reset communication: one reset of that type, the application is asked once, boot-up follows */
__CPROVER_ensures((__CPROVER_old(V_FRM.Identifier) == 0 && NMT_ADDRESSED() && (NMT_CS() == 129 || NMT_CS() == 130)) ==>
    (G_RESET_N_NODE == __CPROVER_old(G_RESET_N_NODE) + (NMT_CS() == 129 ? 1 : 0) && G_RESET_N_COM == __CPROVER_old(G_RESET_N_COM) + (NMT_CS() == 130 ? 1 : 0) &&
     G_RESETREQ_N == __CPROVER_old(G_RESETREQ_N) + 1 &&
     (__CPROVER_old(V_NODE.Nmt.Mode) != CO_INIT ==> (V_NODE.Nmt.Mode == CO_PREOP && G_TX_N == __CPROVER_old(G_TX_N) + 1 && BOOTUP_FRAME(G_TX_LAST)))))
__CPROVER_assigns(__CPROVER_object_whole(&V_NODE), __CPROVER_object_whole(V_SDOBUF_P), G_TX_N, G_TX_LAST, G_TX_K, G_MODECHG_N, G_MODECHG_LAST, G_CANCTL_N, G_RESETREQ_N,
                  G_TMR_STATE, G_TMR_CREATE_N, G_TMR_DELETE_N, G_TMR_LAST_DEL, G_TMR_WATCH_DEL_N, G_TYPE_STATE, G_RESET_N_NODE, G_RESET_N_COM, G_PDOINIT_N);

void CONmtInit(CO_NMT *nmt, struct CO_NODE_T *node)
__CPROVER_requires(nmt == &V_NODE.Nmt && node == &V_NODE && (unsigned)V_NODE.Nmt.Mode < CO_MODE_NUM)
__CPROVER_ensures(V_NODE.Nmt.Mode == CO_INIT && WF_NMT() && V_NODE.Nmt.HbCons == NULL && V_NODE.Nmt.Node == &V_NODE)
__CPROVER_ensures(G_TX_N == __CPROVER_old(G_TX_N))
__CPROVER_assigns(V_NODE.Nmt.Node, V_NODE.Nmt.HbCons, V_NODE.Nmt.Mode, V_NODE.Nmt.Allowed, G_MODECHG_N, G_MODECHG_LAST);

void CONodeStart(CO_NODE *node)
__CPROVER_requires(node == &V_NODE && WF_NMT())
__CPROVER_ensures(WF_NMT())
__CPROVER_ensures(__CPROVER_old(V_NODE.Nmt.Mode) == CO_INIT
    ? (V_NODE.Nmt.Mode == CO_PREOP && G_TX_N == __CPROVER_old(G_TX_N) + 1 && BOOTUP_FRAME(G_TX_LAST))
    : (V_NODE.Nmt.Mode == __CPROVER_old(V_NODE.Nmt.Mode) && G_TX_N == __CPROVER_old(G_TX_N)))
__CPROVER_assigns(V_NODE.Nmt.Mode, V_NODE.Nmt.Allowed, G_MODECHG_N, G_MODECHG_LAST, G_TX_N, G_TX_LAST, G_TX_K, V_NODE.Error);
