/* Contracts of co_domain.c (static type functions; -include'd with the harness) */
#pragma once
#include "vw.h"

/* a domain entry: V_O.Data -> V_DOM, storage of exactly Size bytes, Offset within */
#define DOM_WF(obj) ((obj) == &V_O && V_O.Data == (CO_DATA)&V_DOM && \
    __CPROVER_r_ok(V_DOM.Start, V_DOM.Size) && V_DOM.Offset <= V_DOM.Size)
#define DOM_MOVED(size, off) (((V_DOM.Size - (off)) >= (size)) ? (size) : (V_DOM.Size - (off)))

static uint32_t COTDomainSize(struct CO_OBJ_T *obj, struct CO_NODE_T *node, uint32_t width)
__CPROVER_requires(obj == &V_O && (V_O.Data == (CO_DATA)0 || V_O.Data == (CO_DATA)&V_DOM))
__CPROVER_ensures(__CPROVER_return_value ==
    (V_O.Data == (CO_DATA)0 ? 0u : ((width == 0 || width >= V_DOM.Size) ? V_DOM.Size : width)))
__CPROVER_assigns();

/* COTDomainRead / COTDomainWrite: enforced in EXPLICIT form (harness/dom_fn.c assumes
 * DOM_RW_PRE, snapshots the old() terms, asserts the *_POST clauses and the frame witness):
 * dfcc + loop contract + byte writes into symbolic-size buffers runs out of memory (measured).
 * G_K (ghost index, < H_BUFSZ / < Size) is universally quantified by the solver. */
#define DOM_RW_PRE(size) (V_O.Data == (CO_DATA)&V_DOM && V_DOM.Offset <= V_DOM.Size && (size) <= H_BUFSZ)
/* exactly min(size, Size-Offset) bytes move, the position advances by as many */
#define DOM_POST_COMMON(ret, size, off0) \
    ((ret) == CO_ERR_NONE && V_DOM.Offset == (off0) + DOM_MOVED(size, off0))
/* read: byte k of the moved range equals the object's byte; buffer bytes beyond keep their value */
#define DOM_READ_POST(size, off0, bk0) \
    ((G_K < DOM_MOVED(size, off0) ==> H_BUF[G_K] == V_DOM.Start[(off0) + G_K]) && \
     ((G_K >= DOM_MOVED(size, off0) && G_K < H_BUFSZ) ==> H_BUF[G_K] == (bk0)))
/* write: byte k of the written range equals the caller's byte; every other domain byte untouched */
#define DOM_WRITE_POST(size, off0, dk0) \
    (((G_K < V_DOM.Size && G_K >= (off0) && G_K < V_DOM.Offset) ==> V_DOM.Start[G_K] == H_BUF[G_K - (off0)]) && \
     ((G_K < V_DOM.Size && !(G_K >= (off0) && G_K < V_DOM.Offset)) ==> V_DOM.Start[G_K] == (dk0)))
static CO_ERR COTDomainRead(struct CO_OBJ_T *obj, struct CO_NODE_T *node, void *buffer, uint32_t size);

static CO_ERR COTDomainWrite(struct CO_OBJ_T *obj, struct CO_NODE_T *node, void *buffer, uint32_t size);

static CO_ERR COTDomainInit(struct CO_OBJ_T *obj, struct CO_NODE_T *node)
__CPROVER_requires(obj == &V_O && (V_O.Data == (CO_DATA)0 || V_O.Data == (CO_DATA)&V_DOM))
__CPROVER_ensures(V_O.Data == (CO_DATA)0 ? __CPROVER_return_value == CO_ERR_BAD_ARG
                                           : (__CPROVER_return_value == CO_ERR_NONE && V_DOM.Offset == 0))
__CPROVER_assigns(V_DOM.Offset);

static CO_ERR COTDomainReset(struct CO_OBJ_T *obj, struct CO_NODE_T *node, uint32_t para)
__CPROVER_requires(obj == &V_O && (V_O.Data == (CO_DATA)0 || V_O.Data == (CO_DATA)&V_DOM))
__CPROVER_ensures(V_O.Data == (CO_DATA)0 ? __CPROVER_return_value == CO_ERR_BAD_ARG
                                           : (__CPROVER_return_value == CO_ERR_NONE && V_DOM.Offset == para))
__CPROVER_assigns(V_DOM.Offset);

/* loop contracts: copy loops of COTDomainRead / COTDomainWrite (same shape) */
#define VWL_dom_read \
 __CPROVER_assigns(src, dst, len, dom->Offset, __CPROVER_object_whole(H_BUF)) \
 __CPROVER_loop_invariant(len <= __CPROVER_loop_entry(len)) \
 __CPROVER_loop_invariant(dom->Offset == __CPROVER_loop_entry(dom->Offset) + (__CPROVER_loop_entry(len) - len)) \
 __CPROVER_loop_invariant(src == dom->Start + dom->Offset && dst == H_BUF + (__CPROVER_loop_entry(len) - len)) \
 __CPROVER_loop_invariant(G_K < (__CPROVER_loop_entry(len) - len) ==> H_BUF[G_K] == dom->Start[__CPROVER_loop_entry(dom->Offset) + G_K]) \
 __CPROVER_loop_invariant((G_K >= (__CPROVER_loop_entry(len) - len) && G_K < H_BUFSZ) ==> H_BUF[G_K] == H_BK0) \
 __CPROVER_decreases(len)
#define VWL_dom_write \
 __CPROVER_assigns(src, dst, len, dom->Offset, __CPROVER_object_whole(V_DOM.Start)) \
 __CPROVER_loop_invariant(len <= __CPROVER_loop_entry(len)) \
 __CPROVER_loop_invariant(dom->Offset == __CPROVER_loop_entry(dom->Offset) + (__CPROVER_loop_entry(len) - len)) \
 __CPROVER_loop_invariant(dst == dom->Start + dom->Offset && src == H_BUF + (__CPROVER_loop_entry(len) - len)) \
 __CPROVER_loop_invariant((G_K < V_DOM.Size && G_K >= __CPROVER_loop_entry(dom->Offset) && G_K < dom->Offset) ==> dom->Start[G_K] == H_BUF[G_K - __CPROVER_loop_entry(dom->Offset)]) \
 __CPROVER_loop_invariant((G_K < V_DOM.Size && !(G_K >= __CPROVER_loop_entry(dom->Offset) && G_K < dom->Offset)) ==> dom->Start[G_K] == H_DK0) \
 __CPROVER_decreases(len)
