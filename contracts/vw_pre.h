/* vw_pre.h - force-included first in every verified TU.
 * CO_DATA is `uintptr_t` in the repository: object entries keep either a small
 * direct value or the address of their storage in an integer.  CBMC does not
 * track object identity through integer-typed pointers (a dereference of
 * (T*)(uintptr_t)p reads an unconstrained "integer address" object), so for
 * verification the typedef name uintptr_t is compiled as `void *`.  The only
 * uses of uintptr_t in the stack are CO_DATA (co_obj.h); all accesses are casts
 * to/from CO_DATA, which CBMC encodes bijectively (object id in the top bits,
 * offset below), direct values < 2^56 round-trip unchanged.  Listed under
 * assumptions in every evidence file. */
#pragma once
#include <stdint.h>
#include <stddef.h>
#include <stdbool.h>
typedef void *vw_dataptr_t;
#define uintptr_t vw_dataptr_t
