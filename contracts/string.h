/* Contracts of co_string.c (static type functions; enforced in explicit form, see harness/str_fn.c).
 * The string object: V_O.Data -> V_STR, V_STR.Start -> storage of H_STRSZ bytes with a
 * terminator somewhere at or behind the read position (H_NUL = index of one NUL).  No
 * quantifier: "first NUL" is specified by three clauses over the ghost index G_K. */
#pragma once
#include "vw.h"
extern uint32_t H_STRSZ, H_NUL;

#define STR_PRE() (V_O.Data == (CO_DATA)&V_STR && H_NUL < H_STRSZ && V_STR.Start[H_NUL] == 0)
/* size: result is the position of the first NUL */
#define STR_SIZE_POST(r) ((r) <= H_NUL && V_STR.Start[(r)] == 0 && (G_K < (r) ==> V_STR.Start[G_K] != 0))
/* read: moved = new Offset - old Offset bytes copied; stops only when `size` bytes were
 * moved or at the terminator; never copies a NUL; rest of the buffer untouched */
#define STR_READ_PRE(size) (STR_PRE() && V_STR.Offset <= H_NUL && (size) <= H_BUFSZ)
#define STR_READ_POST(ret, size, off0) \
    ((ret) == CO_ERR_NONE && V_STR.Offset >= (off0) && V_STR.Offset - (off0) <= (size) && V_STR.Offset <= H_NUL && \
     (V_STR.Offset - (off0) == (size) || V_STR.Start[V_STR.Offset] == 0) && \
     (G_K < V_STR.Offset - (off0) ==> (H_BUF[G_K] == V_STR.Start[(off0) + G_K] && H_BUF[G_K] != 0)) && \
     ((G_K >= V_STR.Offset - (off0) && G_K < H_BUFSZ) ==> H_BUF[G_K] == H_BK0))

static uint32_t COTStringSize (struct CO_OBJ_T *obj, struct CO_NODE_T *node, uint32_t width);
static CO_ERR   COTStringRead (struct CO_OBJ_T *obj, struct CO_NODE_T *node, void *buffer, uint32_t size);

static CO_ERR COTStringInit(struct CO_OBJ_T *obj, struct CO_NODE_T *node)
__CPROVER_requires(obj == &V_O && (V_O.Data == (CO_DATA)0 || V_O.Data == (CO_DATA)&V_STR))
__CPROVER_ensures(V_O.Data == (CO_DATA)0 ? __CPROVER_return_value == CO_ERR_BAD_ARG
                                           : (__CPROVER_return_value == CO_ERR_NONE && V_STR.Offset == 0))
__CPROVER_assigns(V_STR.Offset);

static CO_ERR COTStringReset(struct CO_OBJ_T *obj, struct CO_NODE_T *node, uint32_t para)
__CPROVER_requires(obj == &V_O && (V_O.Data == (CO_DATA)0 || V_O.Data == (CO_DATA)&V_STR))
__CPROVER_ensures(V_O.Data == (CO_DATA)0 ? __CPROVER_return_value == CO_ERR_BAD_ARG
                                           : (__CPROVER_return_value == CO_ERR_NONE && V_STR.Offset == para))
__CPROVER_assigns(V_STR.Offset);

#define VWL_str_size \
 __CPROVER_assigns(strlen, ptr) \
 __CPROVER_loop_invariant(strlen <= H_NUL && ptr == str->Start + strlen) \
 __CPROVER_loop_invariant(G_K < strlen ==> V_STR.Start[G_K] != 0) \
 __CPROVER_decreases(H_NUL - strlen)
#define VWL_str_read \
 __CPROVER_assigns(offset, ptr, dst, num, __CPROVER_object_whole(H_BUF)) \
 __CPROVER_loop_invariant(num <= size && str->Offset <= H_NUL && (size - num) <= H_NUL - str->Offset && offset == str->Offset + (size - num)) \
 __CPROVER_loop_invariant(ptr == str->Start + offset && dst == H_BUF + (size - num)) \
 __CPROVER_loop_invariant(G_K < (size - num) ==> (H_BUF[G_K] == V_STR.Start[str->Offset + G_K] && H_BUF[G_K] != 0)) \
 __CPROVER_loop_invariant((G_K >= (size - num) && G_K < H_BUFSZ) ==> H_BUF[G_K] == H_BK0) \
 __CPROVER_decreases(num)
