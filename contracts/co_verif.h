/* co_verif.h — included by /repo/src/core/co_types.h when CO_VERIF is defined.
 * Maps the named ghost hooks of the repository onto ghost statements.  A hook
 * name that has no definition here expands to nothing. */
#pragma once
#define CO_VERIF_GHOST(name) CO_VERIF_GHOST_##name

/* ---- co_dict.c: CODictFind loop body: instantiate the sortedness lemma for
 *      the pairs (G_K, center) and (center, G_K); see contracts/dict.h */
#ifdef VW_DICT_FIND_GHOST
#define CO_VERIF_GHOST_dict_find_body \
    vw_sorted_inst(cod, (int32_t)G_K, center); vw_sorted_inst(cod, center, (int32_t)G_K);
#else
#define CO_VERIF_GHOST_dict_find_body
#endif
