/* sdo.h - contracts of the SDO server (co_ssdo.c): C01 (memory safety via the representation
 * invariant WF_SDO), C04 (one response, right object, right verdict), C05 (abort => idle).
 * Verification world: srv == &V_NODE.Sdo[G_N] (ghost index G_N < CO_SSDO_N, every server),
 * request/response frame V_FRM, transfer buffer slice V_SDOBUF[G_N*889 ..+889).
 * Dictionary D-abs: symbolic-size dictionary, CODictFind/COObj* replaced by their contracts. */
#pragma once
#include "vw.h"
#include "hal.h"
#include "dict.h"
#include "obj.h"

extern int G_MUX_I, G_MUX0_I;
extern uint8_t G_N;                         /* which server (universally quantified) */
#define SRV        (V_NODE.Sdo[G_N])
#define SBUF_LO    ((size_t)G_N * CO_SDO_BUF_BYTE)
#define CUR_OFF(s) (__CPROVER_POINTER_OFFSET((s).Buf.Cur))
#define SCUR       (CUR_OFF(SRV) - SBUF_LO)                /* fill level: Cur - Start */
#define OBJ_IN_DICT(p) (__CPROVER_same_object((p), G_DROOT) && \
                        __CPROVER_POINTER_OFFSET(p) < (size_t)G_DNUM * sizeof(CO_OBJ))

/* ---- representation invariant of one server ---- */
#define WF_SDO_SHAPE(n) ( \
    V_NODE.Sdo[n].Node == &V_NODE && V_NODE.SdoBuf == V_SDOBUF_P && \
    V_NODE.Sdo[n].Buf.Start == V_SDOBUF_P + (size_t)(n) * CO_SDO_BUF_BYTE && \
    __CPROVER_same_object(V_NODE.Sdo[n].Buf.Cur, V_SDOBUF_P) && \
    CUR_OFF(V_NODE.Sdo[n]) >= (size_t)(n) * CO_SDO_BUF_BYTE && CUR_OFF(V_NODE.Sdo[n]) <= (size_t)(n) * CO_SDO_BUF_BYTE + CO_SDO_BUF_BYTE && \
    (V_NODE.Sdo[n].Frm == NULL || V_NODE.Sdo[n].Frm == &V_FRM) && \
    (V_NODE.Sdo[n].Obj == NULL || OBJ_IN_DICT(V_NODE.Sdo[n].Obj)) && \
    (unsigned)V_NODE.Sdo[n].Blk.State <= BLK_DNWAIT && V_NODE.Sdo[n].Blk.SegNum <= CO_SDO_BUF_SEG)
/* mode-indexed head-room of the transfer buffer (what keeps every write inside the slice):
 *  - segmented transfer open: the cursor is at most one segment into the buffer; the block size never exceeds 127
 *  - block download: Cur == Start + 7*SegCnt, fewer than 127 segments buffered, Num == fill
 *  - waiting for next block / end: nothing is buffered unless the block was the last one
 *  - block upload: at least one and at most blksize (<= 127) segments of the current block were sent */
#define SEGC(n) (V_NODE.Sdo[n].Blk.SegCnt & 0x7F)
#define FILL(n) (CUR_OFF(V_NODE.Sdo[n]) - (size_t)(n) * CO_SDO_BUF_BYTE)
#define WF_SDO_MODE(n) ( \
    V_NODE.Sdo[n].Blk.State != BLK_REPEAT && /* transient inside the acknowledge step only */ \
    ((V_NODE.Sdo[n].Blk.State == BLK_IDLE && V_NODE.Sdo[n].Obj != NULL) ==> (FILL(n) <= 7 && V_NODE.Sdo[n].Buf.Num <= 7)) && \
    (V_NODE.Sdo[n].Blk.State == BLK_DOWNLOAD ==> (V_NODE.Sdo[n].Obj != NULL && SEGC(n) < CO_SDO_BUF_SEG && FILL(n) == 7u * SEGC(n) && V_NODE.Sdo[n].Buf.Num == FILL(n))) && \
    (V_NODE.Sdo[n].Blk.State == BLK_DNWAIT ==> (V_NODE.Sdo[n].Obj != NULL && V_NODE.Sdo[n].Blk.SegCnt == 0 && V_NODE.Sdo[n].Buf.Num == FILL(n))) && \
    ((V_NODE.Sdo[n].Blk.State == BLK_UPLOAD || V_NODE.Sdo[n].Blk.State == BLK_REPEAT) ==> \
        (V_NODE.Sdo[n].Obj != NULL && V_NODE.Sdo[n].Blk.SegCnt >= 1 && \
         V_NODE.Sdo[n].Blk.SegNum >= 1 && V_NODE.Sdo[n].Blk.SegCnt <= V_NODE.Sdo[n].Blk.SegNum && \
         (V_NODE.Sdo[n].Blk.Len == 0 ==> V_NODE.Sdo[n].Blk.LastValid <= 7))))
#define WF_SDO(n) (WF_SDO_SHAPE(n) && WF_SDO_MODE(n))
#if CO_SSDO_N == 1
#define WF_SDO_ALL() (WF_SDO(0))
#define WF_SDO_INIT() (WF_SDO_SHAPE(0))
#define WF_SDO_INIT_ANY() (WF_SDO_SHAPE(0))
#else
#define WF_SDO_ALL() (WF_SDO(0) && WF_SDO(1))
/* between latching the object and the initiate step proper only the shape of server G_N is known */
#define WF_SDO_INIT() (WF_SDO_SHAPE(G_N) && WF_SDO(1 - G_N))
#define WF_SDO_INIT_ANY() WF_SDO_INIT()
#endif
/* idle: no transfer open, nothing buffered, toggle/counters reset - the state in which a
 * fresh transfer behaves like on a fresh node (C05) */
#define SDO_IDLE(n) (V_NODE.Sdo[n].Obj == NULL && V_NODE.Sdo[n].Blk.State == BLK_IDLE && FILL(n) == 0 && V_NODE.Sdo[n].Buf.Num == 0 && \
                     V_NODE.Sdo[n].Seg.TBit == 0 && V_NODE.Sdo[n].Seg.Num == 0 && V_NODE.Sdo[n].Seg.Size == 0)

/* a request is being processed by server G_N */
#define SDO_REQ(srv) ((srv) == &SRV && !G_EXP_ON && G_N < CO_SSDO_N && SRV.Frm == &V_FRM && WF_SDO_ALL() && WF_WORLD_DICT())
#define SDO_REQ_INIT(srv) ((srv) == &SRV && !G_EXP_ON && G_N < CO_SSDO_N && SRV.Frm == &V_FRM && WF_SDO_INIT() && WF_WORLD_DICT() && SRV.Blk.State == BLK_IDLE)
/* G_MUX_I / G_MUX0_I: specification lookup spec_find() of the latched multiplexer (index,sub) and (index,0);
 * definitional ghosts, computed by the harness from the dictionary before the step (a call inside the
 * contract would be re-evaluated at every use: measured >300 s) */
#define WF_WORLD_DICT() (WF_DICT_SHAPE(&V_NODE.Dict) && V_NODE.Dict.Node == &V_NODE && G_MUX_I >= -1 && G_MUX_I < (int)G_DNUM && G_MUX0_I >= -1 && G_MUX0_I < (int)G_DNUM)
/* every other server is untouched (independence of servers, C02) */
#if CO_SSDO_N == 1
#define OTHER_SRV_UNCHANGED() 1
#else
#define OSRV (V_NODE.Sdo[1 - G_N])
#define OTHER_SRV_UNCHANGED() (OSRV.Obj == __CPROVER_old(OSRV.Obj) && OSRV.Buf.Cur == __CPROVER_old(OSRV.Buf.Cur) && OSRV.Buf.Num == __CPROVER_old(OSRV.Buf.Num) && \
    OSRV.Blk.State == __CPROVER_old(OSRV.Blk.State) && OSRV.Seg.Num == __CPROVER_old(OSRV.Seg.Num) && OSRV.Seg.TBit == __CPROVER_old(OSRV.Seg.TBit) && \
    OSRV.Idx == __CPROVER_old(OSRV.Idx) && OSRV.Sub == __CPROVER_old(OSRV.Sub) && OSRV.Frm == __CPROVER_old(OSRV.Frm))
#endif

/* response frame helpers */
#define FD(i)  (V_FRM.Data[i])
#define OFD(i) (__CPROVER_old(V_FRM.Data[i]))
#define FLONG(i) ((uint32_t)FD(i) | ((uint32_t)FD((i) + 1) << 8) | ((uint32_t)FD((i) + 2) << 16) | ((uint32_t)FD((i) + 3) << 24))
#define FRM_DATA_UNCHANGED() (FD(0) == OFD(0) && FD(1) == OFD(1) && FD(2) == OFD(2) && FD(3) == OFD(3) && FD(4) == OFD(4) && FD(5) == OFD(5) && FD(6) == OFD(6) && FD(7) == OFD(7))
#define IS_ABORT_FRAME(code) (FD(0) == 0x80 && FLONG(4) == (uint32_t)(code))
/* an abort response names the multiplexer the server has latched */
#define ABORT_MUX_OK() (FD(1) == (uint8_t)__CPROVER_old(SRV.Idx) && FD(2) == (uint8_t)(__CPROVER_old(SRV.Idx) >> 8) && FD(3) == __CPROVER_old(SRV.Sub))

/* frames of everything an SDO step may touch besides the server itself */
#define SDO_FRAME_COMMON V_FRM, SRV.Obj, SRV.Abort, SRV.Buf.Num, SRV.Buf.Cur, SRV.Seg, SRV.Blk, V_NODE.Error, G_TYPE_STATE, G_READ_N, G_WRITE_N, G_RESET_N, \
                         V_NODE.Sdo[0].Abort, V_NODE.Sdo[CO_SSDO_N - 1].Abort, __CPROVER_object_whole(V_SDOBUF_P)

/* ---------------------------------------------------------------------------------------- */
void COSdoAbort(CO_SDO *srv, uint32_t err)
__CPROVER_requires(srv == &SRV && G_N < CO_SSDO_N && SRV.Frm == &V_FRM)
__CPROVER_ensures(IS_ABORT_FRAME(err) && ABORT_MUX_OK() && SRV.Obj == NULL)
__CPROVER_ensures(V_FRM.Identifier == __CPROVER_old(V_FRM.Identifier) && V_FRM.DLC == __CPROVER_old(V_FRM.DLC))
__CPROVER_assigns(V_FRM.Data, SRV.Obj);

void COSdoAbortReq(CO_SDO *srv)
__CPROVER_requires(srv == &SRV && G_N < CO_SSDO_N && WF_SDO_SHAPE(G_N))
/* client abort: the server is idle afterwards whatever state it was in (C05) */
__CPROVER_ensures(SDO_IDLE(G_N) && WF_SDO(G_N) && SRV.Idx == 0 && SRV.Sub == 0)
__CPROVER_assigns(SRV.Obj, SRV.Idx, SRV.Sub, SRV.Buf.Cur, SRV.Buf.Num, SRV.Blk.State, SRV.Seg.Num, SRV.Seg.Size, SRV.Seg.TBit);

/* COSdoGetObject: existence and access check; abort codes 0602 0000h / 0609 0011h / 0601 0001h / 0601 0002h.
 * spec_find() is the specification lookup over the dictionary of the world. */
#define MUXKEY()  (CO_DEV(__CPROVER_old(SRV.Idx), __CPROVER_old(SRV.Sub)))
#define MUXKEY0() (CO_DEV(__CPROVER_old(SRV.Idx), 0))
#define ACC_OK(i, mode) ((mode) == CO_SDO_RD ? CO_IS_READ(G_DROOT[i].Key) != 0 : CO_IS_WRITE(G_DROOT[i].Key) != 0)
#define GETOBJ_OK(mode) (G_MUX_I >= 0 && ACC_OK(G_MUX_I, mode))
#define GETOBJ_CODE(mode) ( \
    G_MUX_I >= 0 ? ((mode) == CO_SDO_RD ? CO_SDO_ERR_RD : CO_SDO_ERR_WR) : \
    (__CPROVER_old(SRV.Sub) != 0 && G_MUX0_I >= 0) ? CO_SDO_ERR_SUB : CO_SDO_ERR_OBJ)
CO_ERR COSdoGetObject(CO_SDO *srv, uint16_t mode)
__CPROVER_requires(SDO_REQ_INIT(srv) && (mode == CO_SDO_RD || mode == CO_SDO_WR))
/* accepted exactly when an entry with the requested index/sub exists and grants the access */
__CPROVER_ensures(__CPROVER_return_value == (GETOBJ_OK(mode) ? CO_ERR_NONE : CO_ERR_SDO_ABORT))
/* success: that entry is latched, the request frame is untouched */
__CPROVER_ensures(__CPROVER_return_value == CO_ERR_NONE ==> (SRV.Obj == &G_DROOT[G_MUX_I] && FRM_DATA_UNCHANGED()))
/* refusal: abort frame for the requested multiplexer with the CiA 301 code, no object latched */
__CPROVER_ensures(__CPROVER_return_value == CO_ERR_SDO_ABORT ==> (SRV.Obj == NULL && IS_ABORT_FRAME(GETOBJ_CODE(mode)) && ABORT_MUX_OK()))
__CPROVER_ensures(WF_SDO_INIT() && OTHER_SRV_UNCHANGED())
__CPROVER_assigns(V_FRM.Data, SRV.Obj);

/* exact verdict of the length negotiation against the size the object reports (G_OBJSIZE) */
#define EFFSIZE() (G_OBJSIZE)   /* the size the latched object reports (0 for an entry without type): result-binding ghost of obj.h */
#define EFFSIZE_AT(i) (G_OBJSIZE)
#define GETSIZE_SPEC(width, strict) ( \
    EFFSIZE() == 0 ? 0u : (width) == 0 ? EFFSIZE() : EFFSIZE() == (width) ? (width) : \
    (width) < EFFSIZE() ? ((strict) ? 0u : (width)) : 0u)
#define GETSIZE_CODE(width, strict) ( \
    EFFSIZE() == 0 ? CO_SDO_ERR_TOS : ((width) < EFFSIZE()) ? CO_SDO_ERR_LEN_SMALL : CO_SDO_ERR_LEN_HIGH)

/* COSdoGetSize: length negotiation; 0 = refused with 0607 0012h / 0607 0013h / 0800 0020h */
uint32_t COSdoGetSize(CO_SDO *srv, uint32_t width, bool strict)
__CPROVER_requires(SDO_REQ_INIT(srv) && SRV.Obj != NULL)
__CPROVER_ensures(__CPROVER_return_value != 0 ==> (SRV.Obj == __CPROVER_old(SRV.Obj) && FRM_DATA_UNCHANGED() &&
    (width != 0 ==> __CPROVER_return_value == width)))
__CPROVER_ensures(__CPROVER_return_value == 0 ==> (SRV.Obj == NULL && FD(0) == 0x80 && ABORT_MUX_OK() &&
    (FLONG(4) == CO_SDO_ERR_TOS || FLONG(4) == CO_SDO_ERR_LEN_HIGH || (strict && FLONG(4) == CO_SDO_ERR_LEN_SMALL))))
__CPROVER_ensures(__CPROVER_return_value == GETSIZE_SPEC(width, strict))
__CPROVER_ensures(__CPROVER_return_value == 0 ==> FLONG(4) == GETSIZE_CODE(width, strict))
__CPROVER_ensures(WF_SDO_INIT() && OTHER_SRV_UNCHANGED())
__CPROVER_assigns(V_FRM.Data, SRV.Obj);

/* ======================= transfer steps =======================
 * Common shape: requires the request context SDO_REQ and the protocol state the dispatcher
 * guarantees; ensures the representation invariant, the result class, the response, and that
 * every other server is untouched.  G_WR_ERR / G_RD_ERR / G_OBJSIZE: result-binding ghosts (obj.h). */
#define OBJ_REQ_CMD()     (V_FRM.Data[0])
/* at most one access of the object (exactly one when the entry's type provides the function: obj.h TYPE_CLAUSE) */
#define AT_MOST_ONE(cnt)  ((cnt) == __CPROVER_old(cnt) || (cnt) == __CPROVER_old(cnt) + 1)
#define SDO_IDLE_BUF() (SRV.Obj == NULL && SRV.Blk.State == BLK_IDLE && SCUR == 0 && SRV.Buf.Num == 0)
#define RES_IS(a, b)      (__CPROVER_return_value == (a) || __CPROVER_return_value == (b))
#define MUX_ECHO()        (FD(1) == OFD(1) && FD(2) == OFD(2) && FD(3) == OFD(3))
#define DATA4_ZERO()      (FD(4) == 0 && FD(5) == 0 && FD(6) == 0 && FD(7) == 0)
#define ABORTED()         (FD(0) == 0x80 && SRV.Obj == NULL)
#define OBJ_TYPED()       (__CPROVER_old(SRV.Obj->Type) != NULL)
/* abort code for a value the object's type rejects (C04) */
#define WR_ABORT_CODE(abortfield) ((abortfield) > 0 ? (abortfield) : \
    G_WR_ERR == CO_ERR_OBJ_RANGE ? CO_SDO_ERR_RANGE : G_WR_ERR == CO_ERR_OBJ_MAP_TYPE ? CO_SDO_ERR_OBJ_MAP : \
    G_WR_ERR == CO_ERR_OBJ_MAP_LEN ? CO_SDO_ERR_OBJ_MAP_N : G_WR_ERR == CO_ERR_OBJ_INCOMPATIBLE ? CO_SDO_ERR_PARA_INCOMP : CO_SDO_ERR_TOS)

/* ---- expedited download: 2x request, 60h response ---- */
#define DLX_WIDTH() ((OFD(0) & 0x01) ? (4u - ((OFD(0) >> 2) & 0x03)) : 0u)
CO_ERR COSdoDownloadExpedited(CO_SDO *srv)
__CPROVER_requires(SDO_REQ_INIT(srv) && SRV.Obj != NULL && (OBJ_REQ_CMD() & 0xF2) == 0x22)
__CPROVER_ensures(RES_IS(CO_ERR_NONE, CO_ERR_SDO_ABORT))
/* length negotiation refuses: nothing is written */
__CPROVER_ensures(GETSIZE_SPEC(DLX_WIDTH(), 1) == 0 ==> (__CPROVER_return_value == CO_ERR_SDO_ABORT && ABORTED() && ABORT_MUX_OK() &&
                  FLONG(4) == GETSIZE_CODE(DLX_WIDTH(), 1) && G_WRITE_N == __CPROVER_old(G_WRITE_N)))
/* objects wider than 4 bytes cannot be written expedited: refused with an abort frame, nothing written */
__CPROVER_ensures(GETSIZE_SPEC(DLX_WIDTH(), 1) > 4 ==> (__CPROVER_return_value == CO_ERR_SDO_ABORT && ABORTED() && ABORT_MUX_OK() && G_WRITE_N == __CPROVER_old(G_WRITE_N)))
/* exactly one typed write of `size` bytes taken from the request; verdict from the type */
__CPROVER_ensures((GETSIZE_SPEC(DLX_WIDTH(), 1) >= 1 && GETSIZE_SPEC(DLX_WIDTH(), 1) <= 4) ==>
    (AT_MOST_ONE(G_WRITE_N) &&
     (G_WR_ERR == CO_ERR_NONE ? (__CPROVER_return_value == CO_ERR_NONE && FD(0) == 0x60 && MUX_ECHO() && DATA4_ZERO() && SRV.Obj == NULL)
                              : (__CPROVER_return_value == CO_ERR_SDO_ABORT && ABORTED() && ABORT_MUX_OK() && FLONG(4) == WR_ABORT_CODE(SRV.Abort)))))
__CPROVER_ensures(SRV.Blk.State == BLK_IDLE && (__CPROVER_return_value == CO_ERR_SDO_ABORT ==> (FD(0) == 0x80 && SRV.Obj == NULL)))
__CPROVER_ensures(WF_SDO_ALL() && OTHER_SRV_UNCHANGED() && G_TX_N == __CPROVER_old(G_TX_N))
__CPROVER_assigns(SDO_FRAME_COMMON);

/* ---- expedited upload: 40h request, 43h|n response with the value, or segmented initiate 41h ---- */
CO_ERR COSdoUploadExpedited(CO_SDO *srv)
__CPROVER_requires(SDO_REQ_INIT(srv) && SRV.Obj != NULL)
__CPROVER_ensures(RES_IS(CO_ERR_NONE, CO_ERR_SDO_ABORT))
__CPROVER_ensures(EFFSIZE() == 0 ==> (__CPROVER_return_value == CO_ERR_SDO_ABORT && ABORTED() && ABORT_MUX_OK() && FLONG(4) == CO_SDO_ERR_TOS))
/* up to 4 bytes: expedited, announced size in the command, object not written */
__CPROVER_ensures((EFFSIZE() >= 1 && EFFSIZE() <= 4) ==> (AT_MOST_ONE(G_READ_N) && G_WRITE_N == __CPROVER_old(G_WRITE_N)))
__CPROVER_ensures((EFFSIZE() >= 1 && EFFSIZE() <= 4 && G_RD_ERR == CO_ERR_NONE) ==> __CPROVER_return_value == CO_ERR_NONE)
__CPROVER_ensures((EFFSIZE() >= 1 && EFFSIZE() <= 4 && G_RD_ERR == CO_ERR_NONE) ==> FD(0) == (0x43 | (((4u - EFFSIZE()) & 3u) << 2)))
__CPROVER_ensures((EFFSIZE() >= 1 && EFFSIZE() <= 4 && G_RD_ERR == CO_ERR_NONE) ==> (MUX_ECHO() && SRV.Obj == NULL))
__CPROVER_ensures((EFFSIZE() >= 1 && EFFSIZE() <= 4 && G_RD_ERR != CO_ERR_NONE) ==> (__CPROVER_return_value == CO_ERR_SDO_ABORT && ABORTED() && ABORT_MUX_OK()))
/* more than 4 bytes: segmented upload initiated, size announced */
__CPROVER_ensures((EFFSIZE() > 4 && __CPROVER_return_value == CO_ERR_NONE) ==>
    (FD(0) == 0x41 && MUX_ECHO() && FLONG(4) == EFFSIZE() && SRV.Obj == __CPROVER_old(SRV.Obj) && SRV.Seg.Size == EFFSIZE() && SRV.Seg.Num == 0 && SRV.Seg.TBit == 0 && SCUR == 0))
__CPROVER_ensures((EFFSIZE() > 4 && __CPROVER_return_value == CO_ERR_SDO_ABORT) ==> (ABORTED() && ABORT_MUX_OK()))
__CPROVER_ensures(SRV.Blk.State == BLK_IDLE && (__CPROVER_return_value == CO_ERR_SDO_ABORT ==> (FD(0) == 0x80 && SRV.Obj == NULL)))
__CPROVER_ensures(WF_SDO_ALL() && OTHER_SRV_UNCHANGED() && G_TX_N == __CPROVER_old(G_TX_N) && G_WRITE_N == __CPROVER_old(G_WRITE_N))
__CPROVER_assigns(SDO_FRAME_COMMON);

CO_ERR COSdoInitUploadSegmented(CO_SDO *srv, uint32_t size)
__CPROVER_requires(SDO_REQ_INIT(srv) && SRV.Obj != NULL)
__CPROVER_ensures(RES_IS(CO_ERR_NONE, CO_ERR_SDO_ABORT))
__CPROVER_ensures(__CPROVER_return_value == CO_ERR_NONE ==>
    (FD(0) == 0x41 && MUX_ECHO() && FLONG(4) == size && SRV.Obj == __CPROVER_old(SRV.Obj) && SRV.Seg.Size == size && SRV.Seg.Num == 0 && SRV.Seg.TBit == 0 && SCUR == 0))
__CPROVER_ensures(__CPROVER_return_value == CO_ERR_SDO_ABORT ==> (ABORTED() && ABORT_MUX_OK() && FLONG(4) == CO_SDO_ERR_HW_ACCESS))
__CPROVER_ensures(SRV.Blk.State == BLK_IDLE && (__CPROVER_return_value == CO_ERR_SDO_ABORT ==> (FD(0) == 0x80 && SRV.Obj == NULL)))
__CPROVER_ensures(WF_SDO_ALL() && OTHER_SRV_UNCHANGED() && G_TX_N == __CPROVER_old(G_TX_N) && G_WRITE_N == __CPROVER_old(G_WRITE_N))
__CPROVER_assigns(SDO_FRAME_COMMON);

/* ---- upload segment: 6x request, toggle check, up to 7 bytes, c-bit on the last one ---- */
#define USEG_W() ((__CPROVER_old(SRV.Seg.Size) - __CPROVER_old(SRV.Seg.Num)) > 7 ? 7u : (__CPROVER_old(SRV.Seg.Size) - __CPROVER_old(SRV.Seg.Num)))
#define USEG_LAST() ((__CPROVER_old(SRV.Seg.Size) - __CPROVER_old(SRV.Seg.Num)) <= 7)
CO_ERR COSdoUploadSegmented(CO_SDO *srv)
__CPROVER_requires(SDO_REQ(srv) && SRV.Blk.State == BLK_IDLE && (OBJ_REQ_CMD() & 0xEF) == 0x60)
__CPROVER_ensures(RES_IS(CO_ERR_NONE, CO_ERR_SDO_ABORT))
/* no transfer open: unknown command */
__CPROVER_ensures(__CPROVER_old(SRV.Obj) == NULL ==> (__CPROVER_return_value == CO_ERR_SDO_ABORT && IS_ABORT_FRAME(CO_SDO_ERR_CMD)))
/* toggle error */
__CPROVER_ensures((__CPROVER_old(SRV.Obj) != NULL && ((OFD(0) >> 4) & 1) != __CPROVER_old(SRV.Seg.TBit)) ==>
    (__CPROVER_return_value == CO_ERR_SDO_ABORT && ABORTED() && IS_ABORT_FRAME(CO_SDO_ERR_TBIT) && G_READ_N == __CPROVER_old(G_READ_N)))
/* a good segment: toggle echoed, n = 7 - width, c iff last; position advances; transfer closed on the last one */
__CPROVER_ensures(__CPROVER_return_value == CO_ERR_NONE ==>
    (FD(0) == (uint8_t)((__CPROVER_old(SRV.Seg.TBit) << 4) | (((7u - USEG_W()) << 1) & 0x0E) | (USEG_LAST() ? 1 : 0)) &&
     AT_MOST_ONE(G_READ_N) &&
     (USEG_LAST() ? (SRV.Obj == NULL && SRV.Seg.Num == 0 && SRV.Seg.Size == 0 && SRV.Seg.TBit == 0)
                  : (SRV.Obj == __CPROVER_old(SRV.Obj) && SRV.Seg.Num == __CPROVER_old(SRV.Seg.Num) + 7 && SRV.Seg.TBit == (__CPROVER_old(SRV.Seg.TBit) ^ 1)))))
__CPROVER_ensures(SRV.Blk.State == BLK_IDLE && (__CPROVER_return_value == CO_ERR_SDO_ABORT ==> (FD(0) == 0x80 && SRV.Obj == NULL)))
__CPROVER_ensures(WF_SDO_ALL() && OTHER_SRV_UNCHANGED() && G_TX_N == __CPROVER_old(G_TX_N) && G_WRITE_N == __CPROVER_old(G_WRITE_N))
__CPROVER_assigns(SDO_FRAME_COMMON);

/* ---- initiate segmented download: 2x (e=0) request, 60h response ---- */
#define DLS_WIDTH() ((OFD(0) & 0x01) ? ((uint32_t)OFD(4) | ((uint32_t)OFD(5) << 8) | ((uint32_t)OFD(6) << 16) | ((uint32_t)OFD(7) << 24)) : 0u)
CO_ERR COSdoInitDownloadSegmented(CO_SDO *srv)
__CPROVER_requires(SDO_REQ_INIT(srv) && SRV.Obj != NULL)
__CPROVER_ensures(RES_IS(CO_ERR_NONE, CO_ERR_SDO_ABORT))
__CPROVER_ensures(GETSIZE_SPEC(DLS_WIDTH(), 1) == 0 ==> (__CPROVER_return_value == CO_ERR_SDO_ABORT && ABORTED() && ABORT_MUX_OK() &&
                  FLONG(4) == GETSIZE_CODE(DLS_WIDTH(), 1) && G_WRITE_N == __CPROVER_old(G_WRITE_N)))
__CPROVER_ensures(__CPROVER_return_value == CO_ERR_NONE ==>
    (FD(0) == 0x60 && MUX_ECHO() && DATA4_ZERO() && SRV.Obj == __CPROVER_old(SRV.Obj) && SRV.Seg.Size == GETSIZE_SPEC(DLS_WIDTH(), 1) &&
     SRV.Seg.Num == 0 && SRV.Seg.TBit == 0 && SCUR == 0 && SRV.Buf.Num == 0))
__CPROVER_ensures((GETSIZE_SPEC(DLS_WIDTH(), 1) != 0 && __CPROVER_return_value == CO_ERR_SDO_ABORT) ==> (ABORTED() && ABORT_MUX_OK() && FLONG(4) == CO_SDO_ERR_HW_ACCESS))
__CPROVER_ensures(SRV.Blk.State == BLK_IDLE && (__CPROVER_return_value == CO_ERR_SDO_ABORT ==> (FD(0) == 0x80 && SRV.Obj == NULL)))
__CPROVER_ensures(WF_SDO_ALL() && OTHER_SRV_UNCHANGED() && G_TX_N == __CPROVER_old(G_TX_N))
__CPROVER_assigns(SDO_FRAME_COMMON);

/* ---- download segment: 0x request (ccs 0), toggle check, 2x|t response ---- */
CO_ERR COSdoDownloadSegmented(CO_SDO *srv)
__CPROVER_requires(SDO_REQ(srv) && SRV.Blk.State == BLK_IDLE && (OBJ_REQ_CMD() & 0xE0) == 0x00)
__CPROVER_ensures(RES_IS(CO_ERR_NONE, CO_ERR_SDO_ABORT))
/* no transfer open: unknown command, nothing written */
__CPROVER_ensures(__CPROVER_old(SRV.Obj) == NULL ==> (__CPROVER_return_value == CO_ERR_SDO_ABORT && IS_ABORT_FRAME(CO_SDO_ERR_CMD) && G_WRITE_N == __CPROVER_old(G_WRITE_N)))
/* toggle error */
__CPROVER_ensures((__CPROVER_old(SRV.Obj) != NULL && ((OFD(0) >> 4) & 1) != __CPROVER_old(SRV.Seg.TBit)) ==>
    (__CPROVER_return_value == CO_ERR_SDO_ABORT && ABORTED() && IS_ABORT_FRAME(CO_SDO_ERR_TBIT) && G_WRITE_N == __CPROVER_old(G_WRITE_N)))
/* accepted segment: response 20h|t<<4, rest zero; the buffer is flushed (cursor back at the start) */
__CPROVER_ensures(__CPROVER_return_value == CO_ERR_NONE ==>
    (FD(0) == (uint8_t)(0x20 | (__CPROVER_old(SRV.Seg.TBit) << 4)) && FD(1) == 0 && FD(2) == 0 && FD(3) == 0 && DATA4_ZERO() &&
     SRV.Seg.TBit == (__CPROVER_old(SRV.Seg.TBit) ^ 1) && SCUR == 0 && SRV.Buf.Num == 0 &&
     ((OFD(0) & 1) ? SRV.Obj == NULL : SRV.Obj == __CPROVER_old(SRV.Obj))))
__CPROVER_ensures(__CPROVER_return_value == CO_ERR_SDO_ABORT ==> ABORTED())
__CPROVER_ensures(SRV.Blk.State == BLK_IDLE && (__CPROVER_return_value == CO_ERR_SDO_ABORT ==> (FD(0) == 0x80 && SRV.Obj == NULL)))
__CPROVER_ensures(WF_SDO_ALL() && OTHER_SRV_UNCHANGED() && G_TX_N == __CPROVER_old(G_TX_N))
__CPROVER_assigns(SDO_FRAME_COMMON);

/* ======================= block download ======================= */
#define DLB_WIDTH() ((OFD(0) & 0x02) ? ((uint32_t)OFD(4) | ((uint32_t)OFD(5) << 8) | ((uint32_t)OFD(6) << 16) | ((uint32_t)OFD(7) << 24)) : 0u)
CO_ERR COSdoInitDownloadBlock(CO_SDO *srv)
__CPROVER_requires(SDO_REQ_INIT(srv) && SRV.Obj != NULL)
/* always answered: block download response A0h with block size 127, or an abort */
__CPROVER_ensures(RES_IS(CO_ERR_NONE, CO_ERR_SDO_ABORT))
__CPROVER_ensures(GETSIZE_SPEC(DLB_WIDTH(), 0) == 0 ==> (__CPROVER_return_value == CO_ERR_SDO_ABORT && ABORTED() && ABORT_MUX_OK() &&
                  FLONG(4) == GETSIZE_CODE(DLB_WIDTH(), 0) && G_WRITE_N == __CPROVER_old(G_WRITE_N) && SRV.Blk.State == BLK_IDLE))
__CPROVER_ensures(__CPROVER_return_value == CO_ERR_NONE ==>
    (FD(0) == 0xA0 && MUX_ECHO() && FD(4) == CO_SDO_BUF_SEG && FD(5) == 0 && FD(6) == 0 && FD(7) == 0 && SRV.Obj == __CPROVER_old(SRV.Obj) &&
     SRV.Blk.State == BLK_DOWNLOAD && SRV.Blk.SegCnt == 0 && SRV.Blk.Len == GETSIZE_SPEC(DLB_WIDTH(), 0) && SCUR == 0 && SRV.Buf.Num == 0))
__CPROVER_ensures(__CPROVER_return_value == CO_ERR_SDO_ABORT ==> (ABORTED() && ABORT_MUX_OK() && SRV.Blk.State == BLK_IDLE))
__CPROVER_ensures(WF_SDO_ALL() && OTHER_SRV_UNCHANGED() && G_TX_N == __CPROVER_old(G_TX_N))
__CPROVER_assigns(SDO_FRAME_COMMON);

/* one segment of a block: silent inside the block; A2h ackseq 127 at the end of a block */
#define DB_SEQ()  (OFD(0) & 0x7F)
#define DB_LAST() ((OFD(0) & 0x80) != 0)
#define DB_INSEQ() (DB_SEQ() == (uint8_t)(__CPROVER_old(SRV.Blk.SegCnt) + 1))
CO_ERR COSdoDownloadBlock(CO_SDO *srv)
__CPROVER_requires(SDO_REQ(srv) && SRV.Blk.State == BLK_DOWNLOAD)
__CPROVER_ensures(RES_IS(CO_ERR_NONE, CO_ERR_SDO_ABORT) || __CPROVER_return_value == CO_ERR_SDO_SILENT)
/* in sequence, not the end of the block: buffered, no response */
__CPROVER_ensures((DB_INSEQ() && __CPROVER_old(SRV.Blk.Len) > 0 && !DB_LAST() && DB_SEQ() != CO_SDO_BUF_SEG) ==>
    (__CPROVER_return_value == CO_ERR_SDO_SILENT && SRV.Blk.State == BLK_DOWNLOAD && SRV.Blk.SegCnt == DB_SEQ() && G_WRITE_N == __CPROVER_old(G_WRITE_N)))
/* in sequence, end of block (127th or last segment): acknowledge it, wait for next block or end */
/* (a block that is not the last one is written to the object at its end: acknowledged only if the object accepted it, C02) */
__CPROVER_ensures((DB_INSEQ() && __CPROVER_old(SRV.Blk.Len) > 0 && (DB_LAST() || DB_SEQ() == CO_SDO_BUF_SEG)) ==>
    ((DB_LAST() || G_WR_ERR == CO_ERR_NONE)
       ? (__CPROVER_return_value == CO_ERR_NONE && FD(0) == 0xA2 && FD(1) == DB_SEQ() && FD(2) == CO_SDO_BUF_SEG && FD(3) == 0 && DATA4_ZERO() &&
          SRV.Blk.State == BLK_DNWAIT && SRV.Blk.SegCnt == 0)
       : (__CPROVER_return_value == CO_ERR_SDO_ABORT && IS_ABORT_FRAME(CO_SDO_ERR_TOS) && SDO_IDLE_BUF())))
/* more data than announced: 0607 0012h */
__CPROVER_ensures((DB_INSEQ() && __CPROVER_old(SRV.Blk.Len) == 0) ==> (__CPROVER_return_value == CO_ERR_SDO_ABORT && IS_ABORT_FRAME(CO_SDO_ERR_LEN_HIGH) && SDO_IDLE_BUF()))
/* out of sequence: nothing is buffered; at the end of the block the last good segment is acknowledged */
__CPROVER_ensures((!DB_INSEQ() && !DB_LAST() && DB_SEQ() != CO_SDO_BUF_SEG) ==> (__CPROVER_return_value == CO_ERR_SDO_SILENT && SRV.Blk.State == BLK_DOWNLOAD))
__CPROVER_ensures((!DB_INSEQ() && (DB_LAST() || DB_SEQ() == CO_SDO_BUF_SEG)) ==>
    ((__CPROVER_old(SRV.Buf.Num) == 0 || G_WR_ERR == CO_ERR_NONE)
       ? (__CPROVER_return_value == CO_ERR_NONE && FD(0) == 0xA2 && FD(1) == (__CPROVER_old(SRV.Blk.SegCnt) & 0x7F) && FD(2) == CO_SDO_BUF_SEG)
       : (__CPROVER_return_value == CO_ERR_SDO_ABORT && IS_ABORT_FRAME(CO_SDO_ERR_TOS) && SDO_IDLE_BUF())))
__CPROVER_ensures(__CPROVER_return_value == CO_ERR_SDO_SILENT ==> FRM_DATA_UNCHANGED())
__CPROVER_ensures(WF_SDO_ALL() && OTHER_SRV_UNCHANGED() && G_TX_N == __CPROVER_old(G_TX_N))
__CPROVER_assigns(SDO_FRAME_COMMON);

CO_ERR COSdoEndDownloadBlock(CO_SDO *srv)
__CPROVER_requires(SDO_REQ(srv) && SRV.Blk.State == BLK_DNWAIT && (OBJ_REQ_CMD() & 0xE3) == 0xC1)
__CPROVER_ensures(RES_IS(CO_ERR_NONE, CO_ERR_SDO_ABORT))
/* confirmed: A1h, transfer closed */
__CPROVER_ensures(__CPROVER_return_value == CO_ERR_NONE ==> (FD(0) == 0xA1 && FD(1) == 0 && FD(2) == 0 && FD(3) == 0 && DATA4_ZERO() && SDO_IDLE_BUF()))
/* confirmed only if the object accepted the last bytes (C02) */
__CPROVER_ensures((__CPROVER_return_value == CO_ERR_NONE && G_WRITE_N != __CPROVER_old(G_WRITE_N)) ==> G_WR_ERR == CO_ERR_NONE)
__CPROVER_ensures(__CPROVER_return_value == CO_ERR_SDO_ABORT ==> (FD(0) == 0x80 && SRV.Obj == NULL && SRV.Blk.State == BLK_IDLE))
__CPROVER_ensures(AT_MOST_ONE(G_WRITE_N))
__CPROVER_ensures(WF_SDO_ALL() && OTHER_SRV_UNCHANGED() && G_TX_N == __CPROVER_old(G_TX_N))
__CPROVER_assigns(SDO_FRAME_COMMON, SRV.Idx, SRV.Sub);

/* ======================= block upload ======================= */
CO_ERR COSdoInitUploadBlock(CO_SDO *srv)
__CPROVER_requires(SDO_REQ_INIT(srv) && (OBJ_REQ_CMD() & 0xE3) == 0xA0)
__CPROVER_ensures(RES_IS(CO_ERR_NONE, CO_ERR_SDO_ABORT))
__CPROVER_ensures(!GETOBJ_OK(CO_SDO_RD) ==> (__CPROVER_return_value == CO_ERR_SDO_ABORT && ABORTED() && IS_ABORT_FRAME(GETOBJ_CODE(CO_SDO_RD)) && ABORT_MUX_OK()))
/* C2h with the object size; the block size the client asked for (1..127) is taken over */
__CPROVER_ensures(__CPROVER_return_value == CO_ERR_NONE ==>
    (FD(0) == 0xC2 && MUX_ECHO() && FLONG(4) == G_OBJSIZE && G_OBJSIZE != 0 && SRV.Obj == &G_DROOT[G_MUX_I] &&
     SRV.Blk.SegNum == OFD(4) && OFD(4) >= 1 && OFD(4) <= 127 && SRV.Blk.Size == G_OBJSIZE && SRV.Blk.Len == G_OBJSIZE && SRV.Blk.SegOk == 0))
__CPROVER_ensures((GETOBJ_OK(CO_SDO_RD) && EFFSIZE_AT(G_MUX_I) != 0 && (OFD(4) < 1 || OFD(4) > 127)) ==> (__CPROVER_return_value == CO_ERR_SDO_ABORT && IS_ABORT_FRAME(CO_SDO_ERR_BLK_SIZE)))
__CPROVER_ensures(__CPROVER_return_value == CO_ERR_SDO_ABORT ==> ABORTED())
__CPROVER_ensures(SRV.Blk.State == BLK_IDLE && (__CPROVER_return_value == CO_ERR_SDO_ABORT ==> (FD(0) == 0x80 && SRV.Obj == NULL)))
__CPROVER_ensures(WF_SDO_ALL() && OTHER_SRV_UNCHANGED() && G_TX_N == __CPROVER_old(G_TX_N) && G_WRITE_N == __CPROVER_old(G_WRITE_N))
__CPROVER_assigns(SDO_FRAME_COMMON, SRV.Idx, SRV.Sub);

/* start / continue / repeat a block: sends up to SegNum segment frames itself, never more than 127 */
/* (enforced in EXPLICIT form, harness/sdo_ul_blk.c: loop contracts + byte buffer, see DESIGN 3.5a) */
#define ULB_PRE(srv) ((srv) == &SRV && !G_EXP_ON && G_N < CO_SSDO_N && SRV.Frm == &V_FRM && WF_SDO_INIT_ANY() && WF_WORLD_DICT() && \
    (SRV.Blk.State == BLK_IDLE || SRV.Blk.State == BLK_UPLOAD || SRV.Blk.State == BLK_REPEAT) && (SRV.Blk.State != BLK_IDLE ==> (SRV.Obj != NULL && SRV.Blk.SegNum >= 1)) && \
    (SRV.Blk.State == BLK_REPEAT ==> (SRV.Obj != NULL && SRV.Blk.SegOk < SRV.Blk.SegCnt && SRV.Blk.SegCnt <= SRV.Blk.SegNum)))
CO_ERR COSdoUploadBlock(CO_SDO *srv)
__CPROVER_requires(ULB_PRE(srv))
__CPROVER_ensures(__CPROVER_return_value == CO_ERR_SDO_SILENT || __CPROVER_return_value == CO_ERR_SDO_ABORT)
__CPROVER_ensures(G_TX_N - __CPROVER_old(G_TX_N) <= CO_SDO_BUF_SEG)
/* no transfer open: refused with 0504 0001h, nothing transmitted */
__CPROVER_ensures((__CPROVER_old(SRV.Obj) == NULL || __CPROVER_old(SRV.Blk.SegNum) == 0) ==> (__CPROVER_return_value == CO_ERR_SDO_ABORT && IS_ABORT_FRAME(CO_SDO_ERR_CMD) && SRV.Obj == NULL && G_TX_N == __CPROVER_old(G_TX_N) && SRV.Blk.State == __CPROVER_old(SRV.Blk.State)))
__CPROVER_ensures((__CPROVER_old(SRV.Obj) != NULL && __CPROVER_old(SRV.Blk.SegNum) != 0) ==> (__CPROVER_return_value == CO_ERR_SDO_SILENT && SRV.Blk.State == BLK_UPLOAD && SRV.Obj == __CPROVER_old(SRV.Obj) &&
                  G_TX_N - __CPROVER_old(G_TX_N) >= 1 && G_TX_N - __CPROVER_old(G_TX_N) <= SRV.Blk.SegNum))
__CPROVER_ensures(WF_SDO_ALL() && OTHER_SRV_UNCHANGED() && G_WRITE_N == __CPROVER_old(G_WRITE_N))
__CPROVER_assigns(SDO_FRAME_COMMON, G_TX_N, G_TX_LAST, G_TX_K);

/* loop contracts of COSdoUploadBlock: (0) move the unacknowledged tail to the front, (6) transmit the block */
#define VWL_ulb_move \
 __CPROVER_assigns(txNum, txBuf, srv->Buf.Cur, __CPROVER_object_whole(V_SDOBUF_P)) \
 __CPROVER_loop_invariant(txNum <= num && num <= CO_SDO_BUF_BYTE && byteOk <= CO_SDO_BUF_BYTE && byteOk + num <= CO_SDO_BUF_BYTE && \
                          srv->Buf.Cur == srv->Buf.Start + (num - txNum) && txBuf == srv->Buf.Start + byteOk + (num - txNum)) \
 __CPROVER_decreases(txNum)
#define VWL_ulb_main \
 __CPROVER_assigns(seg, size, len, i, finished, srv->Blk.Len, srv->Blk.SegCnt, srv->Blk.LastValid, srv->Buf.Cur, srv->Buf.Num, V_FRM.Data, G_TX_N, G_TX_LAST, G_TX_K, V_NODE.Error) \
 __CPROVER_loop_invariant(finished <= 1 && srv->Blk.SegCnt >= 1 && srv->Blk.SegCnt <= CO_SDO_BUF_SEG && srv->Blk.SegNum >= 1 && srv->Blk.SegCnt <= srv->Blk.SegNum && (finished == 1 ==> srv->Blk.LastValid <= 7) && (srv->Blk.Len == 0 ==> (finished == 1 || H_TX0 == G_TX_N))) \
 __CPROVER_loop_invariant(__CPROVER_same_object(srv->Buf.Cur, V_SDOBUF_P) && CUR_OFF(*srv) >= SBUF_LO && CUR_OFF(*srv) - SBUF_LO <= 7u * ((srv->Blk.SegCnt - 1u) + finished)) \
 __CPROVER_loop_invariant(G_TX_N == H_TX0 + (srv->Blk.SegCnt - 1u) + finished) \
 __CPROVER_decreases(129 - (int)srv->Blk.SegCnt - (int)finished)
extern uint32_t H_TX0;

CO_ERR COSdoAckUploadBlock(CO_SDO *srv)
__CPROVER_requires(SDO_REQ(srv) && SRV.Blk.State == BLK_UPLOAD && (OBJ_REQ_CMD() & 0xE3) == 0xA2)
__CPROVER_ensures(RES_IS(CO_ERR_NONE, CO_ERR_SDO_ABORT) || __CPROVER_return_value == CO_ERR_SDO_SILENT)
/* acknowledging more than was sent: 0504 0003h */
__CPROVER_ensures(OFD(1) > __CPROVER_old(SRV.Blk.SegCnt) ==> (__CPROVER_return_value == CO_ERR_SDO_ABORT && IS_ABORT_FRAME(CO_SDO_ERR_SEQ_NUM) && SDO_IDLE(G_N)))
/* everything acknowledged and nothing left: end block upload C1h | n<<2 */
__CPROVER_ensures((OFD(1) == __CPROVER_old(SRV.Blk.SegCnt) && __CPROVER_old(SRV.Blk.Len) == 0 && __CPROVER_old(SRV.Blk.LastValid) <= 7) ==>
    (__CPROVER_return_value == CO_ERR_NONE && FD(0) == (uint8_t)(0xC1 | ((7u - __CPROVER_old(SRV.Blk.LastValid)) << 2)) && FD(1) == 0 && FD(2) == 0 && FD(3) == 0 && DATA4_ZERO()))
/* otherwise the next (or the repeated) block is transmitted: at least one segment, no other response */
__CPROVER_ensures(__CPROVER_return_value == CO_ERR_SDO_SILENT ==> (G_TX_N - __CPROVER_old(G_TX_N) >= 1 && SRV.Blk.State == BLK_UPLOAD))
__CPROVER_ensures(__CPROVER_return_value == CO_ERR_SDO_ABORT ==> (FD(0) == 0x80 && SDO_IDLE(G_N)))
__CPROVER_ensures(__CPROVER_return_value == CO_ERR_NONE ==> (G_TX_N == __CPROVER_old(G_TX_N)))
__CPROVER_ensures(G_TX_N - __CPROVER_old(G_TX_N) <= CO_SDO_BUF_SEG)
__CPROVER_ensures(WF_SDO_ALL() && OTHER_SRV_UNCHANGED() && G_WRITE_N == __CPROVER_old(G_WRITE_N))
__CPROVER_assigns(SDO_FRAME_COMMON, SRV.Idx, SRV.Sub, G_TX_N, G_TX_LAST, G_TX_K);

CO_ERR COSdoEndUploadBlock(CO_SDO *srv)
__CPROVER_requires(SDO_REQ(srv) && SRV.Blk.State == BLK_UPLOAD)
__CPROVER_ensures(__CPROVER_return_value == CO_ERR_SDO_SILENT && SRV.Obj == NULL && SRV.Blk.State == BLK_IDLE && FRM_DATA_UNCHANGED())
__CPROVER_ensures(WF_SDO_ALL() && OTHER_SRV_UNCHANGED() && G_TX_N == __CPROVER_old(G_TX_N) && G_WRITE_N == __CPROVER_old(G_WRITE_N))
__CPROVER_assigns(SRV.Obj, SRV.Blk.State);

/* ======================= request intake and dispatch ======================= */
#define IS_INITIATE(c) ((((c) & 0xF2) == 0x22) || ((c) == 0x40) || (((c) & 0xF2) == 0x20) || (((c) & 0xF9) == 0xC0) || (((c) & 0xE3) == 0xA0))
#define REQ_MUX_LATCHED() (SRV.Idx == ((uint16_t)OFD(1) | ((uint16_t)OFD(2) << 8)) && SRV.Sub == OFD(3))
/* COSdoCheck: which server (if any) a frame addresses; the request is latched into that server */
CO_SDO *COSdoCheck(CO_SDO *srv, CO_IF_FRM *frm)
__CPROVER_requires(srv == V_NODE.Sdo && frm == &V_FRM && G_N < CO_SSDO_N && WF_SDO_ALL())
/* the first server whose request identifier matches claims the frame; nobody else is touched */
__CPROVER_ensures((__CPROVER_old(V_FRM.Identifier) == __CPROVER_old(SRV.RxId) && (G_N == 0 || __CPROVER_old(V_FRM.Identifier) != __CPROVER_old(V_NODE.Sdo[0].RxId))) ==>
    (__CPROVER_return_value == &SRV && V_FRM.Identifier == SRV.TxId && SRV.Frm == &V_FRM && SRV.Abort == 0 && FRM_DATA_UNCHANGED() &&
     /* an initiate request (and any request to an idle server) names the object the server will work on */
     ((__CPROVER_old(SRV.Obj) == NULL || (SRV.Blk.State == BLK_IDLE && IS_INITIATE(OFD(0)))) ==> REQ_MUX_LATCHED()) &&
     SRV.Obj == __CPROVER_old(SRV.Obj) && SRV.Blk.State == __CPROVER_old(SRV.Blk.State)))
__CPROVER_ensures((__CPROVER_old(V_FRM.Identifier) != __CPROVER_old(V_NODE.Sdo[0].RxId) && __CPROVER_old(V_FRM.Identifier) != __CPROVER_old(V_NODE.Sdo[CO_SSDO_N - 1].RxId)) ==>
    (__CPROVER_return_value == NULL && V_FRM.Identifier == __CPROVER_old(V_FRM.Identifier) && FRM_DATA_UNCHANGED()))
__CPROVER_ensures(WF_SDO_ALL())
__CPROVER_assigns(V_FRM.Identifier, V_NODE.Sdo[0].Frm, V_NODE.Sdo[0].Abort, V_NODE.Sdo[0].Idx, V_NODE.Sdo[0].Sub,
                  V_NODE.Sdo[CO_SSDO_N - 1].Frm, V_NODE.Sdo[CO_SSDO_N - 1].Abort, V_NODE.Sdo[CO_SSDO_N - 1].Idx, V_NODE.Sdo[CO_SSDO_N - 1].Sub);

/* COSdoResponse: one request, one verdict */
#define OSTATE() (__CPROVER_old(SRV.Blk.State))
CO_ERR COSdoResponse(CO_SDO *srv)
__CPROVER_requires(SDO_REQ(srv))
/* an initiate request is processed for the multiplexer it names (established by COSdoCheck) */
__CPROVER_requires((SRV.Blk.State == BLK_IDLE && IS_INITIATE(V_FRM.Data[0])) ==> (SRV.Idx == ((uint16_t)V_FRM.Data[1] | ((uint16_t)V_FRM.Data[2] << 8)) && SRV.Sub == V_FRM.Data[3]))
__CPROVER_ensures(RES_IS(CO_ERR_NONE, CO_ERR_SDO_ABORT) || __CPROVER_return_value == CO_ERR_SDO_SILENT)
/* client abort: idle afterwards, from every state (C05) */
__CPROVER_ensures(OFD(0) == 0x80 ==> SDO_IDLE(G_N))
/* silence only inside a block download, for the end-of-block-upload confirmation, and while the server itself
 * transmits the segments of an upload block (at least one frame) */
__CPROVER_ensures((__CPROVER_return_value == CO_ERR_SDO_SILENT) ==>
    (OSTATE() == BLK_DOWNLOAD || OSTATE() == BLK_DNWAIT || (OSTATE() == BLK_UPLOAD && (OFD(0) == 0xA1 || G_TX_N - __CPROVER_old(G_TX_N) >= 1)) ||
     (OSTATE() == BLK_IDLE && OFD(0) == 0xA3 && G_TX_N - __CPROVER_old(G_TX_N) >= 1)))
/* an abort verdict is an abort frame; a positive initiate response repeats the multiplexer of the request */
__CPROVER_ensures((__CPROVER_return_value == CO_ERR_SDO_ABORT && OFD(0) != 0x80) ==> (FD(0) == 0x80 && SRV.Obj == NULL))
__CPROVER_ensures((__CPROVER_return_value == CO_ERR_NONE && OSTATE() == BLK_IDLE && IS_INITIATE(OFD(0))) ==> MUX_ECHO())
/* unknown command specifier: 0504 0001h */
__CPROVER_ensures((OSTATE() == BLK_IDLE && OFD(0) != 0x80 && !IS_INITIATE(OFD(0)) && (OFD(0) & 0xE0) != 0x00 && (OFD(0) & 0xEF) != 0x60 && OFD(0) != 0xA3) ==>
    (__CPROVER_return_value == CO_ERR_SDO_ABORT && IS_ABORT_FRAME(CO_SDO_ERR_CMD) && SDO_IDLE(G_N)))
/* positive responses to initiate requests leave the object latched that the request names (G_MUX_I = spec lookup) */
__CPROVER_ensures((__CPROVER_return_value == CO_ERR_NONE && OSTATE() == BLK_IDLE && IS_INITIATE(OFD(0)) && SRV.Obj != NULL) ==> SRV.Obj == &G_DROOT[G_MUX_I])
__CPROVER_ensures(G_TX_N - __CPROVER_old(G_TX_N) <= CO_SDO_BUF_SEG)
__CPROVER_ensures(WF_SDO_ALL() && OTHER_SRV_UNCHANGED())
__CPROVER_assigns(SDO_FRAME_COMMON, V_FRM.DLC, SRV.Idx, SRV.Sub, G_TX_N, G_TX_LAST, G_TX_K);

/* COSdoReset / COSdoEnable / COSdoInit: servers idle, enabled per 1200h+n (C05: reset communication) */
void COSdoReset(CO_SDO *srv, uint8_t num, struct CO_NODE_T *node)
__CPROVER_requires(srv == V_NODE.Sdo && node == &V_NODE && V_NODE.SdoBuf == V_SDOBUF_P)
__CPROVER_ensures(num < CO_SSDO_N ==> (WF_SDO(num) && SDO_IDLE(num) && V_NODE.Sdo[num].RxId == CO_SDO_ID_OFF && V_NODE.Sdo[num].TxId == CO_SDO_ID_OFF && V_NODE.Sdo[num].Frm == NULL))
__CPROVER_assigns(num < CO_SSDO_N: V_NODE.Sdo[num]);

void COSdoEnable(CO_SDO *srv, uint8_t num)
__CPROVER_requires(srv == V_NODE.Sdo && V_NODE.Sdo[0].Node == &V_NODE)
/* enabled exactly when both COB-IDs of 1200h+num are readable and valid (bit 31 clear) */
__CPROVER_ensures(num < CO_SSDO_N ==> ((V_NODE.Sdo[num].RxId == CO_SDO_ID_OFF && V_NODE.Sdo[num].TxId == CO_SDO_ID_OFF) ||
    ((V_NODE.Sdo[num].RxId & CO_SDO_ID_OFF) == 0 && (V_NODE.Sdo[num].TxId & CO_SDO_ID_OFF) == 0)))
__CPROVER_assigns(num < CO_SSDO_N: V_NODE.Sdo[num].RxId, V_NODE.Sdo[num].TxId);

void COSdoInit(CO_SDO *srv, struct CO_NODE_T *node)
__CPROVER_requires(srv == V_NODE.Sdo && node == &V_NODE && V_NODE.SdoBuf == V_SDOBUF_P)
__CPROVER_ensures(WF_SDO_ALL() && SDO_IDLE(0) && SDO_IDLE(CO_SSDO_N - 1))
__CPROVER_assigns(V_NODE.Sdo);
