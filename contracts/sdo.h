/* sdo.h - contracts of the SDO server (co_ssdo.c): C01 (memory safety via the representation
 * invariant WF_SDO), C04 (one response, right object, right verdict), C05 (abort => idle).
 * Verification world: srv == &V_NODE.Sdo[G_N] (ghost index G_N < CO_SSDO_N, every server),
 * request/response frame V_FRM, transfer buffer slice V_SDOBUF[G_N*889 ..+889).
 * Dictionary D-abs: symbolic-size dictionary, CODictFind/COObj* replaced by their contracts. */
#pragma once
#include "vw.h"
#include "hal.h"
#include "dict.h"
#include "obj.h"

extern uint8_t G_N;                         /* which server (universally quantified) */
#define SRV        (V_NODE.Sdo[G_N])
#define SBUF_LO    ((size_t)G_N * CO_SDO_BUF_BYTE)
#define CUR_OFF(s) (__CPROVER_POINTER_OFFSET((s).Buf.Cur))
#define SCUR       (CUR_OFF(SRV) - SBUF_LO)                /* fill level: Cur - Start */
#define OBJ_IN_DICT(p) (__CPROVER_same_object((p), G_DROOT) && \
                        __CPROVER_POINTER_OFFSET(p) < (size_t)G_DNUM * sizeof(CO_OBJ))

/* ---- representation invariant of one server ---- */
#define WF_SDO_SHAPE(n) ( \
    V_NODE.Sdo[n].Node == &V_NODE && V_NODE.SdoBuf == V_SDOBUF_P && \
    V_NODE.Sdo[n].Buf.Start == V_SDOBUF_P + (size_t)(n) * CO_SDO_BUF_BYTE && \
    __CPROVER_same_object(V_NODE.Sdo[n].Buf.Cur, V_SDOBUF_P) && \
    CUR_OFF(V_NODE.Sdo[n]) >= (size_t)(n) * CO_SDO_BUF_BYTE && CUR_OFF(V_NODE.Sdo[n]) <= (size_t)(n) * CO_SDO_BUF_BYTE + CO_SDO_BUF_BYTE && \
    (V_NODE.Sdo[n].Frm == NULL || V_NODE.Sdo[n].Frm == &V_FRM) && \
    (V_NODE.Sdo[n].Obj == NULL || OBJ_IN_DICT(V_NODE.Sdo[n].Obj)) && \
    (unsigned)V_NODE.Sdo[n].Blk.State <= BLK_DNWAIT)
/* mode-indexed head-room of the transfer buffer (what keeps every write inside the slice):
 *  - no block transfer: the cursor is at most one segment into the buffer
 *  - block download: Cur == Start + 7*SegCnt, fewer than 127 segments buffered, Num == fill
 *  - waiting for next block / end: nothing is buffered unless the block was the last one
 *  - block upload: counters ordered, at most 127 segments */
#define SEGC(n) (V_NODE.Sdo[n].Blk.SegCnt & 0x7F)
#define FILL(n) (CUR_OFF(V_NODE.Sdo[n]) - (size_t)(n) * CO_SDO_BUF_BYTE)
#define WF_SDO_MODE(n) ( \
    (V_NODE.Sdo[n].Blk.State == BLK_IDLE ==> FILL(n) <= 7) && \
    (V_NODE.Sdo[n].Blk.State == BLK_DOWNLOAD ==> (V_NODE.Sdo[n].Obj != NULL && SEGC(n) < CO_SDO_BUF_SEG && FILL(n) == 7u * SEGC(n) && V_NODE.Sdo[n].Buf.Num == FILL(n))) && \
    (V_NODE.Sdo[n].Blk.State == BLK_DNWAIT ==> (V_NODE.Sdo[n].Obj != NULL && V_NODE.Sdo[n].Blk.SegCnt == 0 && V_NODE.Sdo[n].Buf.Num == FILL(n))) && \
    ((V_NODE.Sdo[n].Blk.State == BLK_UPLOAD || V_NODE.Sdo[n].Blk.State == BLK_REPEAT) ==> \
        (V_NODE.Sdo[n].Obj != NULL && V_NODE.Sdo[n].Blk.SegNum >= 1 && V_NODE.Sdo[n].Blk.SegNum <= CO_SDO_BUF_SEG && \
         V_NODE.Sdo[n].Blk.SegCnt >= 1 && V_NODE.Sdo[n].Blk.SegCnt <= V_NODE.Sdo[n].Blk.SegNum && V_NODE.Sdo[n].Blk.SegOk <= V_NODE.Sdo[n].Blk.SegCnt)))
#define WF_SDO(n) (WF_SDO_SHAPE(n) && WF_SDO_MODE(n))
#if CO_SSDO_N == 1
#define WF_SDO_ALL() (WF_SDO(0))
#else
#define WF_SDO_ALL() (WF_SDO(0) && WF_SDO(1))
#endif
/* idle: no transfer open, nothing buffered, toggle/counters reset - the state in which a
 * fresh transfer behaves like on a fresh node (C05) */
#define SDO_IDLE(n) (V_NODE.Sdo[n].Obj == NULL && V_NODE.Sdo[n].Blk.State == BLK_IDLE && FILL(n) == 0 && V_NODE.Sdo[n].Buf.Num == 0 && \
                     V_NODE.Sdo[n].Seg.TBit == 0 && V_NODE.Sdo[n].Seg.Num == 0 && V_NODE.Sdo[n].Seg.Size == 0)

/* a request is being processed by server G_N */
#define SDO_REQ(srv) ((srv) == &SRV && G_N < CO_SSDO_N && SRV.Frm == &V_FRM && WF_SDO_ALL() && WF_WORLD_DICT())
#define WF_WORLD_DICT() (WF_DICT_SHAPE(&V_NODE.Dict) && V_NODE.Dict.Node == &V_NODE)
/* every other server is untouched (independence of servers, C02) */
#if CO_SSDO_N == 1
#define OTHER_SRV_UNCHANGED() 1
#else
#define OSRV (V_NODE.Sdo[1 - G_N])
#define OTHER_SRV_UNCHANGED() (OSRV.Obj == __CPROVER_old(OSRV.Obj) && OSRV.Buf.Cur == __CPROVER_old(OSRV.Buf.Cur) && OSRV.Buf.Num == __CPROVER_old(OSRV.Buf.Num) && \
    OSRV.Blk.State == __CPROVER_old(OSRV.Blk.State) && OSRV.Seg.Num == __CPROVER_old(OSRV.Seg.Num) && OSRV.Seg.TBit == __CPROVER_old(OSRV.Seg.TBit) && \
    OSRV.Idx == __CPROVER_old(OSRV.Idx) && OSRV.Sub == __CPROVER_old(OSRV.Sub) && OSRV.Frm == __CPROVER_old(OSRV.Frm))
#endif

/* response frame helpers */
#define FD(i)  (V_FRM.Data[i])
#define OFD(i) (__CPROVER_old(V_FRM.Data[i]))
#define FLONG(i) ((uint32_t)FD(i) | ((uint32_t)FD((i) + 1) << 8) | ((uint32_t)FD((i) + 2) << 16) | ((uint32_t)FD((i) + 3) << 24))
#define IS_ABORT_FRAME(code) (FD(0) == 0x80 && FLONG(4) == (uint32_t)(code))
/* an abort response names the multiplexer the server has latched */
#define ABORT_MUX_OK() (FD(1) == (uint8_t)__CPROVER_old(SRV.Idx) && FD(2) == (uint8_t)(__CPROVER_old(SRV.Idx) >> 8) && FD(3) == __CPROVER_old(SRV.Sub))

/* frames of everything an SDO step may touch besides the server itself */
#define SDO_FRAME_COMMON V_FRM, SRV.Obj, SRV.Abort, SRV.Buf.Num, SRV.Buf.Cur, SRV.Seg, SRV.Blk, V_NODE.Error, G_TYPE_STATE, G_READ_N, G_WRITE_N, G_RESET_N, \
                         V_NODE.Sdo[0].Abort, V_NODE.Sdo[CO_SSDO_N - 1].Abort, __CPROVER_object_whole(V_SDOBUF_P)

/* ---------------------------------------------------------------------------------------- */
void COSdoAbort(CO_SDO *srv, uint32_t err)
__CPROVER_requires(srv == &SRV && G_N < CO_SSDO_N && SRV.Frm == &V_FRM)
__CPROVER_ensures(IS_ABORT_FRAME(err) && ABORT_MUX_OK() && SRV.Obj == NULL)
__CPROVER_ensures(V_FRM.Identifier == __CPROVER_old(V_FRM.Identifier) && V_FRM.DLC == __CPROVER_old(V_FRM.DLC))
__CPROVER_assigns(V_FRM.Data, SRV.Obj);

void COSdoAbortReq(CO_SDO *srv)
__CPROVER_requires(srv == &SRV && G_N < CO_SSDO_N && WF_SDO_SHAPE(G_N))
/* client abort: the server is idle afterwards whatever state it was in (C05) */
__CPROVER_ensures(SDO_IDLE(G_N) && WF_SDO(G_N) && SRV.Idx == 0 && SRV.Sub == 0)
__CPROVER_assigns(SRV.Obj, SRV.Idx, SRV.Sub, SRV.Buf.Cur, SRV.Buf.Num, SRV.Blk.State, SRV.Seg.Num, SRV.Seg.Size, SRV.Seg.TBit);

/* COSdoGetObject: existence and access check; abort codes 0602 0000h / 0609 0011h / 0601 0001h / 0601 0002h.
 * spec_find() is the specification lookup over the dictionary of the world. */
#define MUXKEY()  (CO_DEV(__CPROVER_old(SRV.Idx), __CPROVER_old(SRV.Sub)))
#define MUXKEY0() (CO_DEV(__CPROVER_old(SRV.Idx), 0))
#define ACC_OK(i, mode) ((mode) == CO_SDO_RD ? CO_IS_READ(G_DROOT[i].Key) != 0 : CO_IS_WRITE(G_DROOT[i].Key) != 0)
#define GETOBJ_OK(mode) (spec_find(MUXKEY()) >= 0 && ACC_OK(spec_find(MUXKEY()), mode))
#define GETOBJ_CODE(mode) ( \
    spec_find(MUXKEY()) >= 0 ? ((mode) == CO_SDO_RD ? CO_SDO_ERR_RD : CO_SDO_ERR_WR) : \
    (__CPROVER_old(SRV.Sub) != 0 && spec_find(MUXKEY0()) >= 0) ? CO_SDO_ERR_SUB : CO_SDO_ERR_OBJ)
CO_ERR COSdoGetObject(CO_SDO *srv, uint16_t mode)
__CPROVER_requires(SDO_REQ(srv) && (mode == CO_SDO_RD || mode == CO_SDO_WR) && SRV.Blk.State == BLK_IDLE)
/* accepted exactly when an entry with the requested index/sub exists and grants the access */
__CPROVER_ensures(__CPROVER_return_value == (GETOBJ_OK(mode) ? CO_ERR_NONE : CO_ERR_SDO_ABORT))
/* success: that entry is latched, the request frame is untouched */
__CPROVER_ensures(__CPROVER_return_value == CO_ERR_NONE ==> (SRV.Obj == &G_DROOT[spec_find(MUXKEY())] && V_FRM.Data[0] == OFD(0)))
/* refusal: abort frame for the requested multiplexer with the CiA 301 code, no object latched */
__CPROVER_ensures(__CPROVER_return_value == CO_ERR_SDO_ABORT ==> (SRV.Obj == NULL && IS_ABORT_FRAME(GETOBJ_CODE(mode)) && ABORT_MUX_OK()))
__CPROVER_ensures(WF_SDO_ALL() && OTHER_SRV_UNCHANGED())
__CPROVER_assigns(V_FRM.Data, SRV.Obj);

/* exact verdict of the length negotiation against the size the object reports (G_OBJSIZE) */
#define EFFSIZE() ((__CPROVER_old(SRV.Obj->Type) == NULL) ? 0u : G_OBJSIZE)   /* an entry without type has no size */
#define GETSIZE_SPEC(width, strict) ( \
    EFFSIZE() == 0 ? 0u : (width) == 0 ? EFFSIZE() : EFFSIZE() == (width) ? (width) : \
    (width) < EFFSIZE() ? ((strict) ? 0u : (width)) : 0u)
#define GETSIZE_CODE(width, strict) ( \
    EFFSIZE() == 0 ? CO_SDO_ERR_TOS : ((width) < EFFSIZE()) ? CO_SDO_ERR_LEN_SMALL : CO_SDO_ERR_LEN_HIGH)

/* COSdoGetSize: length negotiation; 0 = refused with 0607 0012h / 0607 0013h / 0800 0020h */
uint32_t COSdoGetSize(CO_SDO *srv, uint32_t width, bool strict)
__CPROVER_requires(SDO_REQ(srv) && SRV.Obj != NULL && SRV.Blk.State == BLK_IDLE)
__CPROVER_ensures(__CPROVER_return_value != 0 ==> (SRV.Obj == __CPROVER_old(SRV.Obj) && FD(0) == OFD(0) && FD(4) == OFD(4) && FD(5) == OFD(5) && FD(6) == OFD(6) && FD(7) == OFD(7) &&
    (width != 0 ==> __CPROVER_return_value == width)))
__CPROVER_ensures(__CPROVER_return_value == 0 ==> (SRV.Obj == NULL && FD(0) == 0x80 && ABORT_MUX_OK() &&
    (FLONG(4) == CO_SDO_ERR_TOS || FLONG(4) == CO_SDO_ERR_LEN_HIGH || (strict && FLONG(4) == CO_SDO_ERR_LEN_SMALL))))
__CPROVER_ensures(__CPROVER_return_value == GETSIZE_SPEC(width, strict))
__CPROVER_ensures(__CPROVER_return_value == 0 ==> FLONG(4) == GETSIZE_CODE(width, strict))
__CPROVER_ensures(WF_SDO_ALL() && OTHER_SRV_UNCHANGED())
__CPROVER_assigns(V_FRM.Data, SRV.Obj);
