/* vw_dict.h - a small concrete-layout dictionary for the D-lay regime (DESIGN 3.2):
 * V_DICT[VW_DN+1] with symbolic Num <= VW_DN, symbolic keys (sorted, non-zero index/sub),
 * symbolic flags, entry types chosen from the stack's basic types, storage direct or referenced.
 * Pointers are established by assignment in vw_dict_init(); scalars stay nondet. */
#pragma once
#include "vw.h"
#include <stdlib.h>
#ifndef VW_DN
#define VW_DN 3
#endif
CO_OBJ     V_DICT[VW_DN + 1];
struct vw_cell { uint8_t b[4]; } V_CELLS[VW_DN];   /* referenced integer storage per entry (a struct, not a 2-D array:
                                      cbmc 6.11 mis-simplifies *(T*)&A[i][0] on 2-D byte arrays with symbolic i) */
#define VW_CELL_VAL(i) ((uint32_t)V_CELLS[i].b[0] | ((uint32_t)V_CELLS[i].b[1] << 8) | ((uint32_t)V_CELLS[i].b[2] << 16) | ((uint32_t)V_CELLS[i].b[3] << 24))
CO_OBJ_DOM V_DOMS[VW_DN];          /* domain descriptors per entry */
#ifndef VW_DOMPTR
#define VW_DOMPTR(i) (&V_DOMS[i])
#endif
uint8_t    H_TYPE[VW_DN];          /* nondet choice of the entry type */
uint8_t    H_REF[VW_DN];           /* nondet: 0 = no storage (NULL), else referenced storage */
uint16_t   H_NUM;                  /* number of configured entries */
#define VW_T_NONE 0
#define VW_T_I8   1
#define VW_T_I16  2
#define VW_T_I32  3
#define VW_T_DOM  4

static void vw_dict_init(void)
{
    __CPROVER_assume(H_NUM <= VW_DN);
    for (int i = 0; i < VW_DN; i++) {
        uint8_t t = H_TYPE[i];
        __CPROVER_assume(t <= VW_T_MAX);
        V_DICT[i].Type = (t == VW_T_I8) ? CO_TUNSIGNED8 : (t == VW_T_I16) ? CO_TUNSIGNED16 :
                         (t == VW_T_I32) ? CO_TUNSIGNED32 : (t == VW_T_DOM) ? CO_TDOMAIN : (const CO_OBJ_TYPE *)0;
        if (t == VW_T_DOM) {
            V_DICT[i].Data = H_REF[i] ? (CO_DATA)VW_DOMPTR(i) : (CO_DATA)0;
        } else if (!CO_IS_DIRECT(V_DICT[i].Key)) {
            V_DICT[i].Data = H_REF[i] ? (CO_DATA)&V_CELLS[i].b[0] : (CO_DATA)0;
        } else {
            /* direct value: nondet scalar kept (int -> CO_DATA) */
            uint32_t d; V_DICT[i].Data = (CO_DATA)(size_t)d;
        }
        /* well-formed dictionary: configured keys non-zero index/sub, strictly sorted */
        if (i < H_NUM) {
            __CPROVER_assume(DEV(V_DICT[i].Key) != 0);
            if (i > 0) { __CPROVER_assume(DEV(V_DICT[i - 1].Key) < DEV(V_DICT[i].Key)); }
        }
    }
    V_DICT[H_NUM].Key = 0; V_DICT[H_NUM].Type = 0; V_DICT[H_NUM].Data = (CO_DATA)0;
    V_NODE.Dict.Root = V_DICT; V_NODE.Dict.Num = H_NUM; V_NODE.Dict.Max = VW_DN + 1; V_NODE.Dict.Node = &V_NODE;
}
/* index of the entry with exactly that index/sub, or -1 (spec function, constant loop) */
static int vw_dict_lookup(uint32_t key)
{
    int r = -1;
    for (int i = 0; i < VW_DN; i++) { if (i < H_NUM && DEV(V_DICT[i].Key) == DEV(key)) { r = i; } }
    return r;
}
