/* hal.h - L0: assumed contracts of the driver wrappers (co_if_*.c) and of the application
 * callbacks (src/config/callbacks.c, overridden by applications).  These are the boundary of
 * the verified code: every return value the signature allows is possible (driver faults),
 * nothing of the stack's state is touched except what is listed. */
#pragma once
#include "vw.h"

extern uint32_t  G_TX_N;        /* number of COIfCanSend calls so far */
extern CO_IF_FRM G_TX_LAST;     /* copy of the last frame handed to COIfCanSend */
extern uint32_t  G_TXK;         /* ghost index: which transmission to record */
extern CO_IF_FRM G_TX_K;        /* copy of transmission number G_TXK */
extern uint32_t  G_RECV_N;      /* COIfCanReceive calls */
extern uint32_t  G_MODECHG_N;   /* CONmtModeChange calls */
extern CO_MODE   G_MODECHG_LAST;
extern uint32_t  G_RESETREQ_N;  /* CONmtResetRequest calls */
extern uint32_t  G_CANCTL_N;    /* CAN controller control calls (init/enable/reset/close) */
extern uint32_t  G_LSS_STORE_N; extern uint32_t G_LSS_STORE_BAUD; extern uint8_t G_LSS_STORE_ID;

#define FRM_EQ(a, b) ((a).Identifier == (b).Identifier && (a).DLC == (b).DLC && \
    (a).Data[0] == (b).Data[0] && (a).Data[1] == (b).Data[1] && (a).Data[2] == (b).Data[2] && (a).Data[3] == (b).Data[3] && \
    (a).Data[4] == (b).Data[4] && (a).Data[5] == (b).Data[5] && (a).Data[6] == (b).Data[6] && (a).Data[7] == (b).Data[7])

int16_t COIfCanSend(struct CO_IF_T *cif, CO_IF_FRM *frm)
__CPROVER_requires(cif == &V_NODE.If && frm != NULL && __CPROVER_r_ok(frm, sizeof(CO_IF_FRM)))
__CPROVER_assigns(G_TX_N, G_TX_LAST, G_TX_K, V_NODE.Error)
__CPROVER_ensures(G_TX_N == __CPROVER_old(G_TX_N) + 1 && FRM_EQ(G_TX_LAST, *frm))
__CPROVER_ensures(__CPROVER_old(G_TX_N) == G_TXK ? FRM_EQ(G_TX_K, *frm) : FRM_EQ(G_TX_K, __CPROVER_old(G_TX_K)))
__CPROVER_ensures(__CPROVER_return_value < 0 ? V_NODE.Error == CO_ERR_IF_CAN_SEND : V_NODE.Error == __CPROVER_old(V_NODE.Error));

int16_t COIfCanRead(struct CO_IF_T *cif, CO_IF_FRM *frm)
__CPROVER_requires(cif == &V_NODE.If && frm != NULL && __CPROVER_w_ok(frm, sizeof(CO_IF_FRM)))
__CPROVER_assigns(*frm, V_NODE.Error)
__CPROVER_ensures(__CPROVER_return_value < 0 ? V_NODE.Error == CO_ERR_IF_CAN_READ : V_NODE.Error == __CPROVER_old(V_NODE.Error));

void COIfCanInit(struct CO_IF_T *cif, struct CO_NODE_T *node)
__CPROVER_requires(cif == &V_NODE.If) __CPROVER_assigns(G_CANCTL_N) __CPROVER_ensures(G_CANCTL_N == __CPROVER_old(G_CANCTL_N) + 1);
void COIfCanReset(struct CO_IF_T *cif)
__CPROVER_requires(cif == &V_NODE.If) __CPROVER_assigns(G_CANCTL_N) __CPROVER_ensures(G_CANCTL_N == __CPROVER_old(G_CANCTL_N) + 1);
void COIfCanClose(struct CO_IF_T *cif)
__CPROVER_requires(cif == &V_NODE.If) __CPROVER_assigns(G_CANCTL_N) __CPROVER_ensures(G_CANCTL_N == __CPROVER_old(G_CANCTL_N) + 1);
void COIfCanEnable(struct CO_IF_T *cif, uint32_t baudrate)
__CPROVER_requires(cif == &V_NODE.If) __CPROVER_assigns(G_CANCTL_N, V_NODE.Baudrate)
__CPROVER_ensures(G_CANCTL_N == __CPROVER_old(G_CANCTL_N) + 1)
__CPROVER_ensures(V_NODE.Baudrate == (baudrate == 0 ? __CPROVER_old(V_NODE.Baudrate) : baudrate));

/* application callbacks */
void COIfCanReceive(CO_IF_FRM *frm)
__CPROVER_requires(frm != NULL) __CPROVER_assigns(G_RECV_N) __CPROVER_ensures(G_RECV_N == __CPROVER_old(G_RECV_N) + 1);
void CONmtModeChange(CO_NMT *nmt, CO_MODE mode)
__CPROVER_requires(nmt == &V_NODE.Nmt) __CPROVER_assigns(G_MODECHG_N, G_MODECHG_LAST)
__CPROVER_ensures(G_MODECHG_N == __CPROVER_old(G_MODECHG_N) + 1 && G_MODECHG_LAST == mode);
void CONmtResetRequest(CO_NMT *nmt, CO_NMT_RESET reset)
__CPROVER_requires(nmt == &V_NODE.Nmt) __CPROVER_assigns(G_RESETREQ_N) __CPROVER_ensures(G_RESETREQ_N == __CPROVER_old(G_RESETREQ_N) + 1);
CO_ERR COLssStore(uint32_t baudrate, uint8_t nodeId)
__CPROVER_assigns(G_LSS_STORE_N, G_LSS_STORE_BAUD, G_LSS_STORE_ID)
__CPROVER_ensures(G_LSS_STORE_N == __CPROVER_old(G_LSS_STORE_N) + 1 && G_LSS_STORE_BAUD == baudrate && G_LSS_STORE_ID == nodeId);
CO_ERR COLssLoad(uint32_t *baudrate, uint8_t *nodeId)
__CPROVER_requires(baudrate == &V_NODE.Baudrate && nodeId == &V_NODE.NodeId)
__CPROVER_assigns(V_NODE.Baudrate, V_NODE.NodeId);
/* CONodeFatalError: reaching it is a failed obligation (C01) */
void CONodeFatalError(void)
__CPROVER_requires(0) __CPROVER_assigns();
