/* tmr_if.h - L2: interface contracts of the timer manager as seen by the services
 * (replaced in every service proof, so those are unbounded in the pool size; the contracts
 * themselves are proved for bounded pools under C07/C08).
 * Ghost ownership model: G_TMR_LIVE[id] == 1 while action id is pending/elapsed. Only ids
 * below VW_TMR_IDS are tracked individually (ids are chosen nondeterministically by create). */
#pragma once
#include "vw.h"
extern uint32_t    G_TMR_STATE;       /* abstract footprint: pools and lists of the timer manager */
extern uint32_t    G_TMR_CREATE_N;    /* number of successful COTmrCreate calls */
extern uint32_t    G_TMR_DELETE_N;    /* number of COTmrDelete calls with a valid id */
extern int16_t     G_TMR_LAST_ID;     /* id returned by the last successful create */
extern uint32_t    G_TMR_LAST_START, G_TMR_LAST_CYCLE;
extern CO_TMR_FUNC G_TMR_LAST_FUNC;
extern void       *G_TMR_LAST_PARA;
extern int16_t     G_TMR_LAST_DEL;    /* id handed to the last COTmrDelete */
extern int16_t     G_TMR_WATCH;       /* ghost: one watched action id (universally quantified) */
extern uint32_t    G_TMR_WATCH_DEL_N; /* number of deletions of the watched id */

/* tick conversion as specified by the stack: freq <= unit: time / (unit/freq); else time * (freq/unit) */
#define TMR_TICKS(freq, time, unit) \
    ((freq) == 0u ? 0u : ((freq) <= (unit) ? (uint32_t)(time) / ((unit) / (freq)) : (uint32_t)(time) * ((freq) / (unit))))

int16_t COTmrCreate(CO_TMR *tmr, uint32_t startTicks, uint32_t cycleTicks, CO_TMR_FUNC func, void *para)
__CPROVER_requires(tmr == &V_NODE.Tmr)
__CPROVER_assigns(G_TMR_STATE, G_TMR_CREATE_N, G_TMR_LAST_ID, G_TMR_LAST_START, G_TMR_LAST_CYCLE, G_TMR_LAST_FUNC, G_TMR_LAST_PARA, V_NODE.Error)
__CPROVER_ensures(__CPROVER_return_value >= -1)
/* creation fails if both times are zero or no function is given (and possibly for lack of slots) */
__CPROVER_ensures(((startTicks == 0 && cycleTicks == 0) || func == 0) ==> __CPROVER_return_value == -1)
__CPROVER_ensures(__CPROVER_return_value >= 0 ==>
    (G_TMR_CREATE_N == __CPROVER_old(G_TMR_CREATE_N) + 1 && G_TMR_LAST_ID == __CPROVER_return_value &&
     G_TMR_LAST_START == (startTicks == 0 ? cycleTicks : startTicks) && G_TMR_LAST_CYCLE == cycleTicks &&
     G_TMR_LAST_FUNC == func && G_TMR_LAST_PARA == para && G_TMR_LAST_ID != G_TMR_WATCH))
__CPROVER_ensures(__CPROVER_return_value < 0 ==> G_TMR_CREATE_N == __CPROVER_old(G_TMR_CREATE_N));

int16_t COTmrDelete(CO_TMR *tmr, int16_t actId)
__CPROVER_requires(tmr == &V_NODE.Tmr)
__CPROVER_assigns(G_TMR_STATE, G_TMR_DELETE_N, G_TMR_LAST_DEL, G_TMR_WATCH_DEL_N)
__CPROVER_ensures(__CPROVER_return_value == 0 || __CPROVER_return_value == -1)
__CPROVER_ensures(actId < 0 ==> (__CPROVER_return_value == -1 && G_TMR_DELETE_N == __CPROVER_old(G_TMR_DELETE_N)))
__CPROVER_ensures(actId >= 0 ==> (G_TMR_DELETE_N == __CPROVER_old(G_TMR_DELETE_N) + 1 && G_TMR_LAST_DEL == actId))
__CPROVER_ensures(G_TMR_WATCH_DEL_N == __CPROVER_old(G_TMR_WATCH_DEL_N) + ((actId >= 0 && actId == G_TMR_WATCH) ? 1 : 0));

uint32_t COTmrGetTicks(CO_TMR *tmr, uint16_t time, uint32_t unit)
__CPROVER_requires(tmr == &V_NODE.Tmr && (unit == CO_TMR_UNIT_1MS || unit == CO_TMR_UNIT_100US))
__CPROVER_assigns()
/* deterministic conversion (spec function of C07): zero time gives zero ticks */
__CPROVER_ensures(__CPROVER_return_value == TMR_TICKS(V_NODE.Tmr.Freq, time, unit));

uint16_t COTmrGetMinTime(CO_TMR *tmr, uint32_t unit)
__CPROVER_requires(tmr == &V_NODE.Tmr && (unit == CO_TMR_UNIT_1MS || unit == CO_TMR_UNIT_100US))
__CPROVER_assigns();

