/* obj.h - L1 contracts of the object access layer (co_obj.c) and of object type functions.
 *
 * Type functions are reached through function pointers; what the stack may assume of ANY type
 * (basic, CiA 301 system types, user types) is stated once as the *_contract functions below
 * and attached with __CPROVER_obeys_contract.  G_TYPE_STATE is the abstract footprint of a type
 * function: object storage, read/write positions and whatever service state a type reconfigures.
 *
 * "Argument expectation" ghosts: G_EXP_ON/G_EXP_SIZE/G_EXP_BUF let a caller's contract pin the
 * arguments it must hand to a (replaced) callee - the callee's requires then fails if e.g. a
 * length was narrowed on the way. */
#pragma once
#include "vw.h"

extern uint32_t G_TYPE_STATE;
extern _Bool    G_EXP_ON;        /* expectation armed */
extern uint32_t G_EXP_SIZE;      /* expected size/len/width argument */
extern void    *G_EXP_BUF;       /* expected buffer argument */
extern uint32_t G_EXP_PARA;      /* expected reset parameter */
extern uint32_t G_RESET_N, G_READ_N, G_WRITE_N;   /* ghost call counters of the type functions */

#define EXP_OK(buffer, size) (!G_EXP_ON || ((uint32_t)(size) == G_EXP_SIZE && (void *)(buffer) == G_EXP_BUF))

uint32_t size_contract(struct CO_OBJ_T *obj, struct CO_NODE_T *node, uint32_t width)
__CPROVER_requires(obj != NULL && node != NULL)
__CPROVER_assigns();

CO_ERR init_contract(struct CO_OBJ_T *obj, struct CO_NODE_T *node)
__CPROVER_requires(obj != NULL && node != NULL)
__CPROVER_assigns(G_TYPE_STATE);

CO_ERR read_contract(struct CO_OBJ_T *obj, struct CO_NODE_T *node, void *buffer, uint32_t size)
__CPROVER_requires(obj != NULL && node != NULL && buffer != NULL && __CPROVER_w_ok(buffer, size))
__CPROVER_requires(EXP_OK(buffer, size))
__CPROVER_assigns(G_TYPE_STATE, G_READ_N, V_NODE.Sdo[0].Abort, V_NODE.Sdo[CO_SSDO_N - 1].Abort, __CPROVER_object_whole(buffer))
__CPROVER_ensures(G_READ_N == __CPROVER_old(G_READ_N) + 1);

CO_ERR write_contract(struct CO_OBJ_T *obj, struct CO_NODE_T *node, void *buffer, uint32_t size)
__CPROVER_requires(obj != NULL && node != NULL && buffer != NULL && __CPROVER_r_ok(buffer, size))
__CPROVER_requires(EXP_OK(buffer, size))
__CPROVER_assigns(G_TYPE_STATE, G_WRITE_N, V_NODE.Sdo[0].Abort, V_NODE.Sdo[CO_SSDO_N - 1].Abort)
__CPROVER_ensures(G_WRITE_N == __CPROVER_old(G_WRITE_N) + 1);

CO_ERR reset_contract(struct CO_OBJ_T *obj, struct CO_NODE_T *node, uint32_t para)
__CPROVER_requires(obj != NULL && node != NULL)
__CPROVER_requires(!G_EXP_ON || para == G_EXP_PARA)
__CPROVER_assigns(G_TYPE_STATE, G_RESET_N)
__CPROVER_ensures(G_RESET_N == __CPROVER_old(G_RESET_N) + 1);

/* validity of an entry's type table: a static configuration fact (const tables), assumed where the
 * object layer is proved (VW_ENFORCE_OBJ) and not re-checked at call sites of upper layers */
#ifdef VW_ENFORCE_OBJ
#define TYPE_OK(obj) ((obj) == NULL || (obj)->Type == NULL || \
   (((obj)->Type->Size  == NULL || __CPROVER_obeys_contract((obj)->Type->Size,  size_contract))  && \
    ((obj)->Type->Init  == NULL || __CPROVER_obeys_contract((obj)->Type->Init,  init_contract))  && \
    ((obj)->Type->Read  == NULL || __CPROVER_obeys_contract((obj)->Type->Read,  read_contract))  && \
    ((obj)->Type->Write == NULL || __CPROVER_obeys_contract((obj)->Type->Write, write_contract)) && \
    ((obj)->Type->Reset == NULL || __CPROVER_obeys_contract((obj)->Type->Reset, reset_contract))))
#else
#define TYPE_OK(obj) 1
#endif
/* clauses that look inside the type table are stated only where the table is known to be valid
 * (object-layer proofs); callers of upper layers see the weaker remainder (sound: a weaker ensures) */
#ifdef VW_ENFORCE_OBJ
#define TYPE_HAS(obj, FN) ((obj)->Type->FN != NULL)
#define TYPE_CLAUSE(c) (c)
#define VIEW_CLAUSE(c) 1
#else
#define TYPE_CLAUSE(c) 1
/* result-binding ghosts (upper-layer view only): the value a type function reports is named by a
 * ghost INPUT (never assigned), so that a caller's contract can speak about it.  Universally
 * quantified, hence without loss of generality wherever the callee is called at most once per
 * step; type Size functions are pure (size_contract assigns nothing). */
#define VIEW_CLAUSE(c) (c)
#endif
extern uint32_t G_OBJSIZE;     /* what COObjGetSize reports for a valid entry */
extern CO_ERR   G_RD_ERR;      /* what the type's read reports */
extern CO_ERR   G_WR_ERR;      /* what the type's write reports */
#define G_Read_ERR G_RD_ERR
#define G_Write_ERR G_WR_ERR
#define OBJ_BADARG(obj, node) ((obj) == NULL || (obj)->Type == NULL || (node) == NULL)

uint32_t COObjGetSize(struct CO_OBJ_T *obj, CO_NODE *node, uint32_t width)
__CPROVER_requires((obj == NULL || __CPROVER_r_ok(obj, sizeof(CO_OBJ))) && TYPE_OK(obj))
__CPROVER_ensures(OBJ_BADARG(obj, node) ==> __CPROVER_return_value == 0)
__CPROVER_ensures(TYPE_CLAUSE((!OBJ_BADARG(obj, node) && obj->Type->Size == NULL) ==> __CPROVER_return_value == 0))
/* (an entry without type reports 0, clause above: the instances with Type == NULL have G_OBJSIZE == 0) */
__CPROVER_ensures(VIEW_CLAUSE((obj != NULL && node != NULL) ==> __CPROVER_return_value == G_OBJSIZE))
__CPROVER_assigns();

CO_ERR COObjRdValue(struct CO_OBJ_T *obj, struct CO_NODE_T *node, void *value, uint8_t width)
__CPROVER_requires((obj == NULL || __CPROVER_r_ok(obj, sizeof(CO_OBJ))) && TYPE_OK(obj))
__CPROVER_requires(value == NULL || __CPROVER_w_ok(value, width))
__CPROVER_requires(EXP_OK(value, width))
__CPROVER_ensures((OBJ_BADARG(obj, node) || value == NULL) ==> (__CPROVER_return_value == CO_ERR_BAD_ARG && G_READ_N == __CPROVER_old(G_READ_N)))
__CPROVER_ensures(TYPE_CLAUSE((!(OBJ_BADARG(obj, node) || value == NULL) && obj->Type->Read == NULL) ==> (__CPROVER_return_value == CO_ERR_OBJ_ACC && G_READ_N == __CPROVER_old(G_READ_N))))
/* otherwise exactly one call of the type's read function with the caller's buffer and width */
__CPROVER_ensures(TYPE_CLAUSE((!(OBJ_BADARG(obj, node) || value == NULL) && obj->Type->Read != NULL) ==> G_READ_N == __CPROVER_old(G_READ_N) + 1))
__CPROVER_ensures(G_READ_N == __CPROVER_old(G_READ_N) || G_READ_N == __CPROVER_old(G_READ_N) + 1)
__CPROVER_ensures(VIEW_CLAUSE((obj != NULL && node != NULL && value != NULL) ==> __CPROVER_return_value == G_RD_ERR))
__CPROVER_assigns(G_TYPE_STATE, G_READ_N, V_NODE.Sdo[0].Abort, V_NODE.Sdo[CO_SSDO_N - 1].Abort; value != NULL: __CPROVER_object_whole(value));

CO_ERR COObjWrValue(struct CO_OBJ_T *obj, struct CO_NODE_T *node, void *value, uint8_t width)
__CPROVER_requires((obj == NULL || __CPROVER_r_ok(obj, sizeof(CO_OBJ))) && TYPE_OK(obj))
__CPROVER_requires(value == NULL || __CPROVER_r_ok(value, width))
__CPROVER_requires(EXP_OK(value, width))
__CPROVER_ensures((OBJ_BADARG(obj, node) || value == NULL) ==> (__CPROVER_return_value == CO_ERR_BAD_ARG && G_WRITE_N == __CPROVER_old(G_WRITE_N)))
__CPROVER_ensures(TYPE_CLAUSE((!(OBJ_BADARG(obj, node) || value == NULL) && obj->Type->Write == NULL) ==> (__CPROVER_return_value == CO_ERR_OBJ_ACC && G_WRITE_N == __CPROVER_old(G_WRITE_N))))
__CPROVER_ensures(TYPE_CLAUSE((!(OBJ_BADARG(obj, node) || value == NULL) && obj->Type->Write != NULL) ==> G_WRITE_N == __CPROVER_old(G_WRITE_N) + 1))
__CPROVER_ensures(G_WRITE_N == __CPROVER_old(G_WRITE_N) || G_WRITE_N == __CPROVER_old(G_WRITE_N) + 1)
__CPROVER_ensures(VIEW_CLAUSE((obj != NULL && node != NULL && value != NULL) ==> __CPROVER_return_value == G_WR_ERR))
__CPROVER_assigns(G_TYPE_STATE, G_WRITE_N, V_NODE.Sdo[0].Abort, V_NODE.Sdo[CO_SSDO_N - 1].Abort);

/* buffer access: Start = reset the object's position to 0, then one read/write of `size` bytes;
 * Cont = one read/write of `size` bytes at the current position.  size is handed on unchanged. */
#define BUF_Read_OK(b, n)  __CPROVER_w_ok(b, n)
#define BUF_Write_OK(b, n) __CPROVER_r_ok(b, n)
#define BUF_CONTRACT(NAME, CNT, FN, RESETS) \
CO_ERR NAME(struct CO_OBJ_T *obj, struct CO_NODE_T *node, uint8_t *buffer, uint32_t size) \
__CPROVER_requires((obj == NULL || __CPROVER_r_ok(obj, sizeof(CO_OBJ))) && TYPE_OK(obj)) \
/* the caller's buffer must hold `size` bytes: a type function may move up to `size` bytes */ \
__CPROVER_requires(buffer == NULL || BUF_##FN##_OK(buffer, size)) \
__CPROVER_requires(EXP_OK(buffer, size) && (!G_EXP_ON || G_EXP_PARA == 0)) \
__CPROVER_ensures((OBJ_BADARG(obj, node) || buffer == NULL) ==> (__CPROVER_return_value == CO_ERR_BAD_ARG && CNT == __CPROVER_old(CNT) && G_RESET_N == __CPROVER_old(G_RESET_N))) \
__CPROVER_ensures(TYPE_CLAUSE((!(OBJ_BADARG(obj, node) || buffer == NULL) && obj->Type->FN == NULL) ==> (__CPROVER_return_value == CO_ERR_OBJ_ACC && CNT == __CPROVER_old(CNT) && G_RESET_N == __CPROVER_old(G_RESET_N)))) \
__CPROVER_ensures(TYPE_CLAUSE((!(OBJ_BADARG(obj, node) || buffer == NULL) && obj->Type->FN != NULL) ==> \
    (CNT == __CPROVER_old(CNT) + 1 && G_RESET_N == __CPROVER_old(G_RESET_N) + ((RESETS && obj->Type->Reset != NULL) ? 1 : 0)))) \
__CPROVER_ensures(CNT == __CPROVER_old(CNT) || CNT == __CPROVER_old(CNT) + 1) \
__CPROVER_ensures(VIEW_CLAUSE((obj != NULL && node != NULL && buffer != NULL) ==> __CPROVER_return_value == G_##FN##_ERR))
BUF_CONTRACT(COObjRdBufStart, G_READ_N, Read, 1)
__CPROVER_assigns(G_TYPE_STATE, G_READ_N, G_RESET_N, V_NODE.Sdo[0].Abort, V_NODE.Sdo[CO_SSDO_N - 1].Abort; buffer != NULL: __CPROVER_object_whole(buffer));
BUF_CONTRACT(COObjRdBufCont, G_READ_N, Read, 0)
__CPROVER_assigns(G_TYPE_STATE, G_READ_N, G_RESET_N, V_NODE.Sdo[0].Abort, V_NODE.Sdo[CO_SSDO_N - 1].Abort; buffer != NULL: __CPROVER_object_whole(buffer));
BUF_CONTRACT(COObjWrBufStart, G_WRITE_N, Write, 1)
__CPROVER_assigns(G_TYPE_STATE, G_WRITE_N, G_RESET_N, V_NODE.Sdo[0].Abort, V_NODE.Sdo[CO_SSDO_N - 1].Abort);
BUF_CONTRACT(COObjWrBufCont, G_WRITE_N, Write, 0)
__CPROVER_assigns(G_TYPE_STATE, G_WRITE_N, G_RESET_N, V_NODE.Sdo[0].Abort, V_NODE.Sdo[CO_SSDO_N - 1].Abort);

CO_ERR COObjReset(struct CO_OBJ_T *obj, struct CO_NODE_T *node, uint32_t para)
__CPROVER_requires((obj == NULL || __CPROVER_r_ok(obj, sizeof(CO_OBJ))) && TYPE_OK(obj))
__CPROVER_requires(!G_EXP_ON || para == G_EXP_PARA)
__CPROVER_ensures(OBJ_BADARG(obj, node) ==> (__CPROVER_return_value == CO_ERR_BAD_ARG && G_RESET_N == __CPROVER_old(G_RESET_N)))
__CPROVER_ensures(TYPE_CLAUSE((!OBJ_BADARG(obj, node)) ==> G_RESET_N == __CPROVER_old(G_RESET_N) + (obj->Type->Reset != NULL ? 1 : 0)))
__CPROVER_assigns(G_TYPE_STATE, G_RESET_N);
