/* Parameter store / restore (co_para_store.c, co_para_restore.c) - property C17, EXPLICIT form.
 * Parameter groups V_PG[1..PN] (sub-index k <-> V_PG[k], present iff H_HAS[k]); NVM driver wrappers and the default
 * callback are logging stubs that may report ANY byte count (fault at any call position).
 * -DVW_OP=0 StoreWrite 1 RestoreWrite 2 CONodeParaLoad 3 COParaStore.  -include'd in front of the TU. */
#include "vw_defs.h"
#include "vw_node.h"
#define PN 4
CO_PARA V_PG[PN + 1]; CO_OBJ V_PWO[PN + 1]; _Bool H_HAS[PN + 1]; _Bool H_NODEF[PN + 1]; uint8_t H_NUM; _Bool H_NUM_OK; uint8_t V_PMEM[PN + 1][4];
struct nvlog { uint32_t off; uint8_t *buf; uint32_t size; } W_LOG[PN + 2], R_LOG[PN + 2]; uint32_t W_N, R_N, D_N; CO_PARA *D_LOG[PN + 2]; uint32_t H_WRES[PN + 2], H_RRES[PN + 2]; int16_t H_DRES[PN + 2];
uint32_t COIfNvmWrite(struct CO_IF_T *cif, uint32_t start, uint8_t *buffer, uint32_t size) { __CPROVER_assert(cif == &V_NODE.If, "COIfNvmWrite requires"); uint32_t r = size; if (W_N <= PN) { W_LOG[W_N].off = start; W_LOG[W_N].buf = buffer; W_LOG[W_N].size = size; r = H_WRES[W_N]; } W_N++; __CPROVER_assume(r <= size); return r; }
uint32_t COIfNvmRead(struct CO_IF_T *cif, uint32_t start, uint8_t *buffer, uint32_t size) { __CPROVER_assert(cif == &V_NODE.If, "COIfNvmRead requires"); uint32_t r = size; if (R_N <= PN) { R_LOG[R_N].off = start; R_LOG[R_N].buf = buffer; R_LOG[R_N].size = size; r = H_RRES[R_N]; } R_N++; __CPROVER_assume(r <= size); return r; }
int16_t COParaDefault(struct CO_PARA_T *pg) { int16_t r = 0; if (D_N <= PN) { D_LOG[D_N] = pg; r = H_DRES[D_N]; } D_N++; return r; }
CO_ERR CODictRdByte(CO_DICT *cod, uint32_t key, uint8_t *val) { __CPROVER_assert(cod == &V_NODE.Dict && val != 0, "CODictRdByte requires"); if ((key & 0xFF00) == 0 && H_NUM_OK) { *val = H_NUM; return CO_ERR_NONE; } return CO_ERR_OBJ_NOT_FOUND; }
CO_OBJ *CODictFind(CO_DICT *cod, uint32_t key) { uint8_t sub = (uint8_t)(key >> 8); if (sub >= 1 && sub <= PN && H_HAS[sub]) { return &V_PWO[sub]; } return 0; }
void COTPdoTrigObj(CO_TPDO *pdo, struct CO_OBJ_T *obj) { }
uint8_t H_SUB; uint32_t H_SIG; CO_NMT_RESET H_TYPE;
void harness(void)
{
    vw_node_init();
    __CPROVER_assume(H_NUM_OK && H_NUM <= PN && H_SUB >= 1 && H_SUB <= PN && H_HAS[H_SUB]);
    for (int k = 1; k <= PN; k++) { V_PWO[k].Key = CO_KEY(VW_OP == 1 ? 0x1011 : 0x1010, k, V_PWO[k].Key & 0x3F); V_PWO[k].Data = (CO_DATA)&V_PG[k]; V_PG[k].Start = V_PMEM[k]; V_PG[k].Default = H_NODEF[k] ? (uint8_t *)0 : V_PMEM[k]; /* a group may have no constant default block (defaults computed by the callback) */ }
    W_N = R_N = D_N = 0; CO_ERR e0 = V_NODE.Error;
    /* the groups a request on sub-index H_SUB addresses: sub 1 with more than one group = every group 2..num */
    _Bool all = (H_SUB == 1 && H_NUM > 1);
#if VW_OP == 0 || VW_OP == 1
    uint32_t SIG = VW_OP == 0 ? 0x65766173u : 0x64616F6Cu;
#if VW_OP == 0
    CO_ERR e = COTParaStoreWrite(&V_PWO[H_SUB], &V_NODE, &H_SIG, 4);
#define CALLS W_N
#else
    CO_ERR e = COTParaRestoreWrite(&V_PWO[H_SUB], &V_NODE, &H_SIG, 4);
#define CALLS D_N
#endif
    __CPROVER_assert(R_N == 0, "no NVM read on a store/restore request");
    if (H_SIG != SIG) {
        __CPROVER_assert(e == CO_ERR_TYPE_WR && W_N == 0 && D_N == 0, "any value but the signature is refused and touches neither RAM nor NVM");
    } else {
        /* expected call sequence */
        uint32_t n = 0; _Bool failed = 0, found = 0;
        for (int k = 1; k <= PN; k++) {
            _Bool addressed = all ? (k >= 2 && k <= H_NUM && H_HAS[k]) : (k == H_SUB);
            if (addressed) { found = 1; }
            if (addressed && !failed && (V_PG[k].Value & CO_PARA___E) != 0) {
#if VW_OP == 0
                __CPROVER_assert(n < W_N && W_LOG[n].off == V_PG[k].Offset && W_LOG[n].buf == V_PG[k].Start && W_LOG[n].size == V_PG[k].Size, "store: exactly the bytes of the addressed, enabled group go to its NVM location");
                if (H_WRES[n] != V_PG[k].Size) { failed = 1; }
#else
                __CPROVER_assert(n < D_N && D_LOG[n] == &V_PG[k], "restore: the default callback runs for exactly the addressed, enabled groups");
                if (H_DRES[n] != 0) { failed = 1; }
#endif
                n++;
            }
        }
        __CPROVER_assert(CALLS == n, "no other group is stored / restored");
        __CPROVER_assert(failed ==> e != CO_ERR_NONE, "a short write / failing callback is surfaced as an error of the request");
        /* (sub-index 1 naming groups 2..num of which none exists in the dictionary is answered with an error: not constrained) */
        __CPROVER_assert((!failed && found) ==> e == CO_ERR_NONE, "a request whose groups were all stored / restored succeeds");
#if VW_OP == 0
        __CPROVER_assert(D_N == 0, "store never calls the default callback");
#else
        __CPROVER_assert(W_N == 0, "restore never writes NVM");
#endif
        if (n == 3 && !failed) { __CPROVER_assert(0, "REACH:a"); }
        if (failed && n == 2) { __CPROVER_assert(0, "REACH:b"); }
    }
#elif VW_OP == 2
    __CPROVER_assume(H_TYPE == CO_RESET_NODE || H_TYPE == CO_RESET_COM);
    CO_ERR e = CONodeParaLoad(&V_NODE, H_TYPE);
    uint32_t n = 0; _Bool failed = 0;
    for (int k = 1; k <= PN; k++) {
        if (k <= H_NUM && H_HAS[k] && V_PG[k].Type == H_TYPE) {
            __CPROVER_assert(n < R_N && R_LOG[n].off == V_PG[k].Offset && R_LOG[n].buf == V_PG[k].Start && R_LOG[n].size == V_PG[k].Size, "load: exactly the groups of the reset type are read from their NVM location into their RAM block");
            if (H_RRES[n] != V_PG[k].Size) { failed = 1; }
            n++;
        }
    }
    __CPROVER_assert(R_N == n && W_N == 0 && D_N == 0, "load: no other group is read, nothing is written");
    __CPROVER_assert((e == CO_ERR_NONE) == !failed && (failed ==> V_NODE.Error == CO_ERR_IF_NVM_READ), "a short read is surfaced as node error");
    if (n == 3 && !failed) { __CPROVER_assert(0, "REACH:a"); }
    if (failed) { __CPROVER_assert(0, "REACH:b"); }
#elif VW_OP == 4 || VW_OP == 5
    /* object init / reset on 1010h:0 : (re)load the groups from NVM */
    static CO_OBJ o0; o0.Key = CO_KEY(0x1010, 0, o0.Key & 0x3F); o0.Data = (CO_DATA)0;
#if VW_OP == 4
    CO_ERR e = COTParaStoreInit(&o0, &V_NODE);
    CO_NMT_RESET pass[2] = { CO_RESET_NODE, CO_RESET_COM }; int np = 2;
#else
    __CPROVER_assume(H_TYPE == CO_RESET_NODE || H_TYPE == CO_RESET_COM);
    CO_ERR e = COTParaStoreReset(&o0, &V_NODE, (uint32_t)H_TYPE);
    CO_NMT_RESET pass[2] = { H_TYPE, H_TYPE }; int np = 1;
#endif
    uint32_t n = 0; _Bool failed = 0;
    for (int p = 0; p < np; p++) {
        if (p == 1 && failed) { break; }     /* a failing first pass ends initialisation with the error */
        for (int k = 1; k <= PN; k++) {
            if (k <= H_NUM && H_HAS[k] && V_PG[k].Type == pass[p]) {
                __CPROVER_assert(n < R_N && R_LOG[n].off == V_PG[k].Offset && R_LOG[n].buf == V_PG[k].Start && R_LOG[n].size == V_PG[k].Size, "init/reset: the groups of the type are read from their NVM location into their RAM block");
                if (H_RRES[n] != V_PG[k].Size) { failed = 1; }
                n++;
            }
        }
    }
    __CPROVER_assert(R_N == n && W_N == 0 && D_N == 0, "init/reset: no other group is read, nothing is written");
    __CPROVER_assert((e == CO_ERR_NONE) == !failed && (failed ==> V_NODE.Error == CO_ERR_IF_NVM_READ), "a short read is surfaced as error of the init/reset and as node error");
    if (n == 3 && !failed) { __CPROVER_assert(0, "REACH:a"); }
    if (failed) { __CPROVER_assert(0, "REACH:b"); }
#else
    CO_ERR e = COParaStore(&V_PG[H_SUB], &V_NODE);
    _Bool en = (V_PG[H_SUB].Value & CO_PARA___E) != 0;
    __CPROVER_assert(W_N == (en ? 1u : 0u), "a group is written exactly once, and only if it is enabled for storing on command");
    __CPROVER_assert(en ==> (W_LOG[0].off == V_PG[H_SUB].Offset && W_LOG[0].buf == V_PG[H_SUB].Start && W_LOG[0].size == V_PG[H_SUB].Size && (e == CO_ERR_NONE) == (H_WRES[0] == V_PG[H_SUB].Size)), "exactly the group's bytes; a short count is an error");
    if (en && e != CO_ERR_NONE) { __CPROVER_assert(0, "REACH:a"); }
    if (!en) { __CPROVER_assert(0, "REACH:b"); }
#endif
    __CPROVER_assert(0, "REACH:post");
}
