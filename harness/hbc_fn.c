/* Heartbeat consumer (co_hb_cons.c) - property C11, EXPLICIT form, BOUNDED: consumer chain of at most VW_HBC_N = 3
 * entries; the harness builds an arbitrary well-formed chain (any subset of the entries, any order, distinct node ids,
 * times > 0, any timers/counters/states - pointers by assignment), runs one real operation and asserts the change of
 * the abstract view (which entry is active, its timer/counter/state) and that no other entry is disturbed.
 * -DVW_OP=0 Activate 1 Check 2 Monitor 3 GetHbEvents 4 LastHbState 5 type Write (1016h:k through SDO / dictionary API)
 * 6 type Read 7 type Size 8 type Init (node initialisation).  -include'd in front of co_hb_cons.c. */
#include "vw_defs.h"
#include "vw_node.h"
#include "nmt.h"
#ifndef HN
#define HN 3
#endif
CO_HBCONS V_HBC[HN]; _Bool H_IN[HN]; uint8_t H_ORD[HN];
uint32_t N_TDEL, N_TCRE, N_EVT, N_CHG, N_GETTICKS; int16_t D_ID, H_TID, H_DELRES; uint32_t C_START, C_CYCLE, H_TICKS; void *C_PARA; CO_TMR_FUNC C_FUNC; uint16_t A_TIME; uint8_t E_NODE, G_NODE; CO_MODE G_MODE;
int16_t COTmrDelete(CO_TMR *tmr, int16_t actId) { __CPROVER_assert(tmr == &V_NODE.Tmr && actId >= 0, "COTmrDelete requires: a valid id"); N_TDEL++; D_ID = actId; __CPROVER_assume(H_DELRES == 0 || H_DELRES == -1); return H_DELRES; }
int16_t COTmrCreate(CO_TMR *tmr, uint32_t s, uint32_t c, CO_TMR_FUNC f, void *p) { __CPROVER_assert(tmr == &V_NODE.Tmr, "COTmrCreate requires"); N_TCRE++; C_START = s; C_CYCLE = c; C_FUNC = f; C_PARA = p; __CPROVER_assume(H_TID >= -1); return H_TID; }
uint32_t COTmrGetTicks(CO_TMR *tmr, uint16_t time, uint32_t unit) { __CPROVER_assert(unit == 1000, "heartbeat times are milliseconds"); N_GETTICKS++; A_TIME = time; return H_TICKS; }
void CONmtHbConsEvent(CO_NMT *nmt, uint8_t nodeId) { N_EVT++; E_NODE = nodeId; }
void CONmtHbConsChange(CO_NMT *nmt, uint8_t nodeId, CO_MODE mode) { N_CHG++; G_NODE = nodeId; G_MODE = mode; }
void CONodeFatalError(void) { __CPROVER_assert(0, "CONodeFatalError must not be reached"); }
void COTPdoTrigObj(CO_TPDO *pdo, struct CO_OBJ_T *obj) { }
CO_OBJ V_HO[HN + 1]; _Bool H_EXIST[HN + 1], H_DATA[HN + 1]; uint32_t H_VAL, H_SZ; uint8_t H_CNT;
CO_OBJ *CODictFind(CO_DICT *cod, uint32_t key) { uint8_t sub = (uint8_t)(key >> 8); if ((key >> 16) == 0x1016 && sub >= 1 && sub <= HN && H_EXIST[sub]) { return &V_HO[sub]; } return 0; }
static int next_in(int after) { int r = -1; for (int k = 0; k < HN; k++) { if (H_IN[k] && (int)H_ORD[k] > after && (r < 0 || H_ORD[k] < H_ORD[r])) { r = k; } } return r; }
static void vw_hbc_build(void)
{
    CO_HBCONS **link = &V_NODE.Nmt.HbCons; int o = -1, e;
    for (int k = 0; k < HN; k++) {
        V_HBC[k].Node = &V_NODE; V_HBC[k].Next = 0;
        __CPROVER_assume(V_HBC[k].Tmr >= -1);
        for (int j = 0; j < k; j++) { __CPROVER_assume(H_ORD[j] != H_ORD[k]); __CPROVER_assume(!(H_IN[j] && H_IN[k]) || V_HBC[j].NodeId != V_HBC[k].NodeId); }
        __CPROVER_assume(!H_IN[k] || V_HBC[k].Time > 0);
        __CPROVER_assume(H_IN[k] || V_HBC[k].Tmr == -1);          /* an inactive entry owns no timer */
    }
    for (int i = 0; i < HN; i++) { e = next_in(o); if (e >= 0) { *link = &V_HBC[e]; link = &V_HBC[e].Next; o = H_ORD[e]; } }
    *link = 0;
}
static _Bool spec_in_chain(int k) { _Bool r = 0; CO_HBCONS *h = V_NODE.Nmt.HbCons; for (int i = 0; i < HN + 1 && h != 0; i++) { if (h == &V_HBC[k]) { r = 1; } h = h->Next; } return r; }
static _Bool spec_wf(void)
{
    int cnt[HN] = {0}; _Bool ok = 1; CO_HBCONS *h = V_NODE.Nmt.HbCons; int i;
    for (i = 0; i < HN + 1 && h != 0; i++) { int k = -1; for (int j = 0; j < HN; j++) { if (h == &V_HBC[j]) { k = j; } } if (k < 0 || i == HN) { ok = 0; break; } cnt[k]++; if (h->Time == 0 || h->Tmr < -1) { ok = 0; } h = h->Next; }
    for (int k = 0; k < HN; k++) { if (cnt[k] > 1) { ok = 0; } for (int j = 0; j < k; j++) { if (cnt[k] && cnt[j] && V_HBC[k].NodeId == V_HBC[j].NodeId) { ok = 0; } } }
    return ok;
}
uint8_t H_I, H_NODEID; uint16_t H_TIME; CO_IF_FRM H_FRM;
#define SAME(k) (V_HBC[k].Time == c0[k].Time && V_HBC[k].NodeId == c0[k].NodeId && V_HBC[k].Tmr == c0[k].Tmr && V_HBC[k].Event == c0[k].Event && V_HBC[k].State == c0[k].State && spec_in_chain(k) == in0[k])
void harness(void)
{
    vw_node_init();
    vw_hbc_build();
    __CPROVER_assume(H_I < HN);
    __CPROVER_assert(spec_wf(), "construction: the pre-state is well-formed");
    CO_HBCONS c0[HN]; _Bool in0[HN]; int k, mon = -1;
    for (k = 0; k < HN; k++) { c0[k] = V_HBC[k]; in0[k] = spec_in_chain(k); }
    N_TDEL = N_TCRE = N_EVT = N_CHG = N_GETTICKS = 0;
#if VW_OP == 0 || VW_OP == 5
#if VW_OP == 5
    /* 1016h:k written through the type function (SDO download or dictionary API): value = node id << 16 | time */
    V_HO[1].Key = CO_KEY(0x1016, 1 + H_I, V_HO[1].Key & 0x3F); V_HO[1].Data = (CO_DATA)&V_HBC[H_I];
    H_TIME = (uint16_t)H_VAL; H_NODEID = (uint8_t)(H_VAL >> 16);
    for (k = 0; k < HN; k++) { if (in0[k] && c0[k].NodeId == H_NODEID) { mon = k; } }
    CO_ERR e = COTNmtHbConsWrite(&V_HO[1], &V_NODE, &H_VAL, H_SZ);
    if (H_SZ != 4) {
        __CPROVER_assert(e == CO_ERR_TYPE_WR && N_TDEL + N_TCRE == 0, "a write of any other length than 4 bytes is refused");
        for (k = 0; k < HN; k++) { __CPROVER_assert(SAME(k), "a refused write changes nothing"); }
        __CPROVER_assert(0, "REACH:c");
    } else {
#else
    for (k = 0; k < HN; k++) { if (in0[k] && c0[k].NodeId == H_NODEID) { mon = k; } }
    CO_ERR e = CONmtHbConsActivate(&V_HBC[H_I], H_TIME, H_NODEID);
    {
#endif
    __CPROVER_assert(spec_wf(), "activate: the chain stays well-formed (acyclic, distinct node ids)");
    if (H_TIME > 0 && mon >= 0) {
        __CPROVER_assert(e == CO_ERR_OBJ_INCOMPATIBLE && N_TDEL + N_TCRE == 0, "a non-zero time for a node that is already monitored is refused (0604 0043h)");
        for (k = 0; k < HN; k++) { __CPROVER_assert(SAME(k), "a refused write changes nothing"); }
    } else {
        __CPROVER_assert(spec_in_chain(H_I) == (H_TIME > 0) && V_HBC[H_I].Time == H_TIME && V_HBC[H_I].NodeId == H_NODEID && V_HBC[H_I].Tmr == -1 && V_HBC[H_I].Event == 0, "the written entry is active exactly for a non-zero time; monitoring starts with the first heartbeat; counter cleared");
        __CPROVER_assert((in0[H_I] && c0[H_I].Tmr >= 0) ==> (N_TDEL == 1 && D_ID == c0[H_I].Tmr), "the running monitor action of the written entry is deleted (exactly its own id)");
        __CPROVER_assert(!(in0[H_I] && c0[H_I].Tmr >= 0) ==> N_TDEL == 0, "no other action is deleted");
        for (k = 0; k < HN; k++) { if (k != H_I) { __CPROVER_assert(SAME(k), "configuring or clearing one entry never disturbs another"); } }
    }
    }
    if (e == CO_ERR_OBJ_INCOMPATIBLE) { __CPROVER_assert(0, "REACH:a"); }
    if (in0[H_I] && in0[(H_I + 1) % HN] && in0[(H_I + 2) % HN] && H_TIME == 0) { __CPROVER_assert(0, "REACH:b"); }
#elif VW_OP == 1
    for (k = 0; k < HN; k++) { if (in0[k] && H_FRM.Identifier >= 0x700 && H_FRM.Identifier <= 0x77F && c0[k].NodeId == (uint8_t)(H_FRM.Identifier - 0x700)) { mon = k; } }
    int16_t r = CONmtHbConsCheck(&V_NODE.Nmt, &H_FRM);
    __CPROVER_assert(spec_wf(), "check: chain well-formed");
    __CPROVER_assert((r >= 0) == (mon >= 0), "a frame is claimed exactly when it is the heartbeat of a monitored node");
    CO_MODE st = H_FRM.Data[0] == 0 ? CO_INIT : H_FRM.Data[0] == 127 ? CO_PREOP : H_FRM.Data[0] == 5 ? CO_OPERATIONAL : H_FRM.Data[0] == 4 ? CO_STOP : (H_FRM.Data[0] == 255 ? CO_INVALID : CO_INVALID);
    if (mon >= 0) {
        __CPROVER_assert(r == c0[mon].NodeId, "check: result names the node");
        __CPROVER_assert((c0[mon].Tmr >= 0) ==> (N_TDEL == 1 && D_ID == c0[mon].Tmr), "the monitor action is re-armed: old one deleted");
        __CPROVER_assert(N_TCRE == 1 && C_START == H_TICKS && A_TIME == c0[mon].Time && C_CYCLE == 0 && C_PARA == &V_HBC[mon] && V_HBC[mon].Tmr == H_TID, "the monitor action is re-armed: one-shot with the configured time");
        __CPROVER_assert(N_CHG == (c0[mon].State != st ? 1u : 0u) && V_HBC[mon].State == st && (N_CHG == 1 ==> (G_NODE == c0[mon].NodeId && G_MODE == st)), "a state change is notified exactly when the received state differs from the previous one");
        __CPROVER_assert(V_HBC[mon].Event == c0[mon].Event, "check: the event counter is untouched");
    } else { __CPROVER_assert(N_TDEL + N_TCRE + N_CHG == 0, "other frames change nothing"); }
    for (k = 0; k < HN; k++) { if (k != mon) { __CPROVER_assert(SAME(k), "a heartbeat touches only the entry of its node"); } }
    if (mon >= 0 && N_CHG == 1) { __CPROVER_assert(0, "REACH:a"); }
    if (mon < 0) { __CPROVER_assert(0, "REACH:b"); }
#elif VW_OP == 2
    __CPROVER_assume(in0[H_I]);
    CONmtHbConsMonitor(&V_HBC[H_I]);
    __CPROVER_assert(N_EVT == 1 && E_NODE == c0[H_I].NodeId, "time elapsed without heartbeat: the event is signalled once for that node");
    __CPROVER_assert(V_HBC[H_I].Event == (c0[H_I].Event < 255 ? c0[H_I].Event + 1 : 255), "the event counter saturates at 255");
    __CPROVER_assert(N_TCRE == 1 && C_START == H_TICKS && A_TIME == c0[H_I].Time && C_CYCLE == 0 && C_PARA == &V_HBC[H_I] && V_HBC[H_I].Tmr == H_TID && N_TDEL == 0, "monitoring continues: re-armed for a further period");
    for (k = 0; k < HN; k++) { if (k != H_I) { __CPROVER_assert(SAME(k), "monitor: no other entry is touched"); } }
    if (V_HBC[H_I].Event == 255) { __CPROVER_assert(0, "REACH:a"); }
    if (V_HBC[H_I].Event == 1) { __CPROVER_assert(0, "REACH:b"); }
#elif VW_OP == 3
    for (k = 0; k < HN; k++) { if (in0[k] && c0[k].NodeId == H_NODEID) { mon = k; } }
    int16_t r = CONmtGetHbEvents(&V_NODE.Nmt, H_NODEID);
    __CPROVER_assert(r == (mon >= 0 ? (int16_t)c0[mon].Event : -1), "reading the event counter: the count of that node, -1 for an unmonitored node");
    __CPROVER_assert(mon >= 0 ==> V_HBC[mon].Event == 0, "the counter clears when read");
    for (k = 0; k < HN; k++) { if (k != mon) { __CPROVER_assert(SAME(k), "reading touches no other entry"); } }
    if (r == 255) { __CPROVER_assert(0, "REACH:a"); }
    if (r == -1) { __CPROVER_assert(0, "REACH:b"); }
#elif VW_OP == 6 || VW_OP == 7
    /* reading 1016h:k delivers the configured node id and time; the size is 4 bytes (1 for sub-index 0) - nothing changes */
    _Bool sub0 = (H_CNT & 1) != 0;
    V_HO[1].Key = CO_KEY(0x1016, sub0 ? 0 : 1 + H_I, V_HO[1].Key & 0x3F); V_HO[1].Data = (CO_DATA)&V_HBC[H_I];
#if VW_OP == 6
    __CPROVER_assume(!sub0);
    uint32_t out = 0xA5A5A5A5u;
    CO_ERR e = COTNmtHbConsRead(&V_HO[1], &V_NODE, &out, H_SZ);
    __CPROVER_assert(e == CO_ERR_NONE && (H_SZ == 4 ==> out == ((uint32_t)c0[H_I].Time | ((uint32_t)c0[H_I].NodeId << 16))), "1016h:k reads as node id << 16 | time of the entry");
    __CPROVER_assert(H_SZ != 4 ==> out == 0xA5A5A5A5u, "a read of another length delivers nothing");
    if (H_SZ == 4) { __CPROVER_assert(0, "REACH:a"); } else { __CPROVER_assert(0, "REACH:b"); }
#else
    uint32_t z = COTNmtHbConsSize(&V_HO[1], &V_NODE, H_SZ);
    __CPROVER_assert(z == (sub0 ? 1u : 4u), "size of 1016h:0 is 1 byte, of every consumer entry 4 bytes");
    if (sub0) { __CPROVER_assert(0, "REACH:a"); } else { __CPROVER_assert(0, "REACH:b"); }
#endif
    for (k = 0; k < HN; k++) { __CPROVER_assert(SAME(k), "reading / sizing changes nothing"); }
    __CPROVER_assert(N_TDEL + N_TCRE + N_EVT + N_CHG == 0, "reading / sizing touches no timer and notifies nobody");
#elif VW_OP == 8
    /* node initialisation (COTNmtHbConsInit on 1016h:0, run once by CODictObjInit after CONmtInit emptied the chain): every
     * configured entry 1..count with a non-zero time is monitored afterwards, no other; monitoring starts with the first heartbeat */
    V_NODE.Nmt.HbCons = 0;
    for (k = 0; k < HN; k++) { V_HBC[k].Next = 0; V_HBC[k].Tmr = -1; }
    for (k = 1; k <= HN; k++) { V_HO[k].Key = CO_KEY(0x1016, k, V_HO[k].Key & 0x3F); V_HO[k].Data = H_DATA[k] ? (CO_DATA)&V_HBC[k - 1] : (CO_DATA)0; }
    __CPROVER_assume(H_CNT <= HN);
    V_HO[0].Key = CO_KEY(0x1016, 0, CO_OBJ_D___R_); V_HO[0].Data = (CO_DATA)(uintptr_t)H_CNT; V_HO[0].Type = CO_TUNSIGNED8;
    for (k = 0; k < HN; k++) { c0[k] = V_HBC[k]; }
    _Bool complete = 1, dup = 0;
    for (k = 1; k <= HN; k++) { if (k <= H_CNT && !(H_EXIST[k] && H_DATA[k])) { complete = 0; } }
    for (k = 0; k < HN; k++) { for (int j = 0; j < k; j++) { if (k < H_CNT && j < H_CNT && c0[k].Time > 0 && c0[j].Time > 0 && c0[k].NodeId == c0[j].NodeId) { dup = 1; } } }
    CO_ERR e = COTNmtHbConsInit(&V_HO[0], &V_NODE);
    __CPROVER_assert(spec_wf(), "init: the consumer chain is well-formed");
    __CPROVER_assert((complete && !dup && H_CNT > 0) ==> e == CO_ERR_NONE, "init succeeds when every configured entry exists and no node is configured twice");   /* (count 0 is answered CO_ERR_TYPE_INIT by the code - no property speaks about it: left unconstrained, DESIGN 9.3) */
    __CPROVER_assert((!complete && H_CNT > 0) ==> e == CO_ERR_TYPE_INIT, "a missing consumer entry is reported as initialisation error");
    if (e == CO_ERR_NONE) {
        for (k = 0; k < HN; k++) {
            __CPROVER_assert(spec_in_chain(k) == (k < H_CNT && c0[k].Time > 0), "init: exactly the configured entries with a non-zero time are monitored");
            __CPROVER_assert(k < H_CNT ==> (V_HBC[k].Node == &V_NODE && V_HBC[k].Time == c0[k].Time && V_HBC[k].NodeId == c0[k].NodeId && V_HBC[k].Tmr == -1 && V_HBC[k].Event == 0), "init: node id and time as configured; monitoring starts with the first heartbeat; counter cleared");
        }
    }
    __CPROVER_assert(N_TCRE == 0 && N_TDEL == 0 && N_EVT == 0 && N_CHG == 0, "init: no timer runs and nobody is notified before the first heartbeat");
    if (e == CO_ERR_NONE && H_CNT == HN && spec_in_chain(0) && spec_in_chain(2)) { __CPROVER_assert(0, "REACH:a"); }
    if (e != CO_ERR_NONE) { __CPROVER_assert(0, "REACH:b"); }
#else
    for (k = 0; k < HN; k++) { if (in0[k] && c0[k].NodeId == H_NODEID) { mon = k; } }
    CO_MODE r = CONmtLastHbState(&V_NODE.Nmt, H_NODEID);
    __CPROVER_assert(r == (mon >= 0 ? c0[mon].State : CO_INVALID), "last state query");
    for (k = 0; k < HN; k++) { __CPROVER_assert(SAME(k), "query changes nothing"); }
    if (mon >= 0) { __CPROVER_assert(0, "REACH:a"); }
    if (mon < 0) { __CPROVER_assert(0, "REACH:b"); }
#endif
    __CPROVER_assert(0, "REACH:post");
}
