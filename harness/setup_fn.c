/* Set-up functions that CONodeInit runs and small accessors (C20: a fresh node starts with silent services; C15: no error is
 * active after initialisation; C12/C13: PDOs inactive until OPERATIONAL; C18: the node id changes only while initialising).
 * EXPLICIT form over stubs of the dictionary.  -DVW_OP=0 CONmtSetNodeId 1 COTPdoClear 2 CORPdoClear 3 COSyncRestart
 * 4 COEmcyInit (the history type's Init from the real co_emcy_hist.c) 5 CONmtGetMode / CONmtGetNodeId
 * 6 COObjTypeUserSDOAbort (C04: the application-supplied abort code) 7 COObjInit.
 * Memory before the call is ARBITRARY (a CO_NODE on the stack or re-used memory is not zeroed). */
#include "vw_defs.h"
#include "vw_node.h"
#include "nmt.h"
CO_OBJ V_EO[3]; _Bool H_HAS[3]; uint32_t H_OSZ[2]; uint8_t H_ID, H_HISTN; uint32_t N_SEND, N_TMR;
/* dictionary through stubs: 1001h:0 = V_EO[0], 1014h:0 = V_EO[1], 1003h:0 = V_EO[2] (each present or not), 1003h:1..H_HISTN exist */
CO_OBJ V_HSUB;
CO_OBJ *CODictFind(CO_DICT *cod, uint32_t key)
{
    __CPROVER_assert(cod == &V_NODE.Dict, "CODictFind requires: the node's dictionary");
    uint32_t d = DEV(key);
    if (d == DEV(CO_DEV(0x1001, 0))) { return H_HAS[0] ? &V_EO[0] : (CO_OBJ *)0; }
    if (d == DEV(CO_DEV(0x1014, 0))) { return H_HAS[1] ? &V_EO[1] : (CO_OBJ *)0; }
    if (d == DEV(CO_DEV(0x1003, 0))) { return H_HAS[2] ? &V_EO[2] : (CO_OBJ *)0; }
    if ((key >> 16) == 0x1003 && H_HAS[2]) { uint8_t sub = (uint8_t)(key >> 8); return (sub >= 1 && sub <= H_HISTN) ? &V_HSUB : (CO_OBJ *)0; }
    return 0;
}
uint32_t COObjGetSize(struct CO_OBJ_T *obj, CO_NODE *node, uint32_t width) { __CPROVER_assert((obj == &V_EO[0] || obj == &V_EO[1]) && node == &V_NODE, "COObjGetSize requires: a dictionary entry"); return H_OSZ[obj == &V_EO[0] ? 0 : 1]; }
int16_t COIfCanSend(struct CO_IF_T *cif, CO_IF_FRM *frm) { N_SEND++; return 0; }
int16_t COTmrCreate(CO_TMR *tmr, uint32_t s, uint32_t c, CO_TMR_FUNC f, void *p) { N_TMR++; return -1; }
int16_t COTmrDelete(CO_TMR *tmr, int16_t id) { N_TMR++; return 0; }
void CONodeFatalError(void) { __CPROVER_assert(0, "CONodeFatalError must not be reached"); }
uint32_t N_INIT; CO_OBJ *A_INITOBJ; CO_ERR H_INITRES;
static CO_ERR t_init(struct CO_OBJ_T *obj, struct CO_NODE_T *node) { N_INIT++; A_INITOBJ = obj; return H_INITRES; }
static const CO_OBJ_TYPE T_WITH = { 0, t_init, 0, 0, 0 }, T_WITHOUT = { 0, 0, 0, 0, 0 };
uint8_t G_I, G_J;
void harness(void)
{
    vw_node_init();
    N_SEND = N_TMR = 0;
    __CPROVER_assume(G_I < CO_TPDO_N && G_I < CO_RPDO_N && G_J < 8);
#if VW_OP == 0
    __CPROVER_assume((unsigned)V_NODE.Nmt.Mode < CO_MODE_NUM);
    uint8_t id0 = V_NODE.NodeId; CO_ERR e0 = V_NODE.Error; CO_MODE m0 = V_NODE.Nmt.Mode; uint8_t a0 = V_NODE.Nmt.Allowed;
    CONmtSetNodeId(&V_NODE.Nmt, H_ID);
    __CPROVER_assert((H_ID != 0 && m0 == CO_INIT) ==> (V_NODE.NodeId == H_ID && V_NODE.Error == e0), "the node id is set while the node is initialising");
    __CPROVER_assert((H_ID != 0 && m0 != CO_INIT) ==> (V_NODE.NodeId == id0 && V_NODE.Error == CO_ERR_NMT_MODE), "in any other state the node id is kept and CO_ERR_NMT_MODE reported");
    __CPROVER_assert(H_ID == 0 ==> (V_NODE.NodeId == id0 && V_NODE.Error == e0), "node id 0 is ignored");
    __CPROVER_assert(V_NODE.Nmt.Mode == m0 && V_NODE.Nmt.Allowed == a0, "the NMT state is untouched");
    if (m0 == CO_INIT && H_ID != 0) { __CPROVER_assert(0, "REACH:a"); }
    if (m0 != CO_INIT) { __CPROVER_assert(0, "REACH:b"); }
#elif VW_OP == 1
    for (int n = 0; n < CO_TPDO_N * 8; n++) { V_NODE.TMap[n].Obj = (n & 1) ? &V_EO[0] : (CO_OBJ *)0; }
    for (int n = 0; n < CO_TPDO_N; n++) { V_NODE.TPdo[n].Node = 0; for (int on = 0; on < 8; on++) { V_NODE.TPdo[n].Map[on] = (on & 1) ? &V_EO[1] : (CO_OBJ *)0; } }
    COTPdoClear(V_NODE.TPdo, &V_NODE);
    __CPROVER_assert(V_NODE.TPdo[G_I].Node == &V_NODE && V_NODE.TPdo[G_I].Identifier == CO_TPDO_COBID_OFF && V_NODE.TPdo[G_I].ObjNum == 0 && V_NODE.TPdo[G_I].EvTmr == -1 && V_NODE.TPdo[G_I].InTmr == -1, "after clearing every TPDO is inactive: no identifier, no mapping, no timer");
    __CPROVER_assert(V_NODE.TPdo[G_I].Map[G_J] == 0 && V_NODE.TPdo[G_I].Size[G_J] == 0, "after clearing no mapping slot is left");
    __CPROVER_assert(V_NODE.TMap[(uint32_t)G_I * 8 + G_J].Obj == 0, "after clearing the object-to-TPDO link table is empty");
    __CPROVER_assert(N_SEND == 0 && N_TMR == 0, "clearing transmits nothing and touches no timer");
    __CPROVER_assert(0, "REACH:a"); __CPROVER_assert(0, "REACH:b");
#elif VW_OP == 2
    for (int n = 0; n < CO_RPDO_N; n++) { V_NODE.RPdo[n].Node = 0; }
    CORPdoClear(V_NODE.RPdo, &V_NODE);
    __CPROVER_assert(V_NODE.RPdo[G_I].Node == &V_NODE && V_NODE.RPdo[G_I].Identifier == 0 && V_NODE.RPdo[G_I].ObjNum == 0, "after clearing every RPDO is linked to the node, has no identifier and maps nothing");
    __CPROVER_assert(N_SEND == 0 && N_TMR == 0, "clearing transmits nothing and touches no timer");
    __CPROVER_assert(0, "REACH:a"); __CPROVER_assert(0, "REACH:b");
#elif VW_OP == 3
    _Bool in[CO_TPDO_N]; 
    for (int n = 0; n < CO_TPDO_N; n++) { in[n] = (V_NODE.Sync.TNum[n] & 1) != 0; V_NODE.Sync.TPdo[n] = in[n] ? &V_NODE.TPdo[n] : (CO_TPDO *)0; }
    CO_SYNC s0 = V_NODE.Sync;
    COSyncRestart(&V_NODE.Sync);
    __CPROVER_assert(V_NODE.Sync.TSync[G_I] == (in[G_I] ? 0 : s0.TSync[G_I]), "restart: the SYNC count of every synchronous TPDO starts again, no other slot changes");
    __CPROVER_assert(V_NODE.Sync.TPdo[G_I] == s0.TPdo[G_I] && V_NODE.Sync.TNum[G_I] == s0.TNum[G_I] && V_NODE.Sync.RPdo[G_I] == s0.RPdo[G_I] && V_NODE.Sync.CobId == s0.CobId && V_NODE.Sync.Tmr == s0.Tmr, "restart: table membership, types and SYNC settings are untouched");
    if (in[G_I]) { __CPROVER_assert(0, "REACH:a"); } else { __CPROVER_assert(0, "REACH:b"); }
#elif VW_OP == 4
    __CPROVER_assume(H_HISTN <= 8);
    V_EO[2].Key = CO_KEY(0x1003, 0, V_EO[2].Key & 0x3F); V_NODE.Error = CO_ERR_NONE;
    CO_EMCY_TBL *root = H_EMCYROOT ? V_EMCYTBL : (CO_EMCY_TBL *)0;
    COEmcyInit(&V_NODE.Emcy, &V_NODE, root);
    __CPROVER_assert(V_NODE.Emcy.Root == root && V_NODE.Emcy.Node == &V_NODE, "init: the error table of the specification is installed");
    __CPROVER_assert(V_NODE.Emcy.Err[G_J % CO_EMCY_STORAGE] == 0 && V_NODE.Emcy.Cnt[G_J % CO_EMCY_REG_NUM] == 0, "init: no error is active and every class counter is 0 - whatever the memory held, whatever is missing in the dictionary");
    _Bool no1001 = !H_HAS[0] || H_OSZ[0] == 0, no1014 = root != 0 && (!H_HAS[1] || H_OSZ[1] == 0);
    __CPROVER_assert(no1001 ==> V_NODE.Error == CO_ERR_CFG_1001_0, "init: a missing error register 1001h is reported");
    __CPROVER_assert((!no1001 && no1014) ==> V_NODE.Error == CO_ERR_CFG_1014_0, "init: an error table without EMCY COB-ID 1014h is reported");
    __CPROVER_assert((!no1001 && !no1014 && H_HAS[2] && H_HISTN >= 1) ==> (V_NODE.Emcy.Hist.Max == H_HISTN && V_NODE.Emcy.Hist.Num == 0 && V_NODE.Emcy.Hist.Off == 0), "init: the error history 1003h is empty, its depth the number of configured entries");
    __CPROVER_assert(N_SEND == 0 && N_TMR == 0, "init transmits nothing and touches no timer");
    if (!no1001 && !no1014 && H_HAS[2] && H_HISTN == 8) { __CPROVER_assert(0, "REACH:a"); }
    if (no1001) { __CPROVER_assert(0, "REACH:b"); }
#elif VW_OP == 6
    /* the application-supplied abort code reaches the server that is transferring this object, and no other server */
    uint32_t a0[CO_SSDO_N]; _Bool hit = 0; int first = -1; uint32_t H_AB = H_OSZ[0];
    for (int n = 0; n < CO_SSDO_N; n++) { V_NODE.Sdo[n].Obj = H_HAS[n % 3] ? &V_EO[0] : &V_EO[1]; a0[n] = V_NODE.Sdo[n].Abort; if (first < 0 && V_NODE.Sdo[n].Obj == &V_EO[0]) { first = n; } }
    COObjTypeUserSDOAbort(&V_EO[0], &V_NODE, H_AB);
    for (int n = 0; n < CO_SSDO_N; n++) { __CPROVER_assert(V_NODE.Sdo[n].Abort == (n == first ? H_AB : a0[n]), "the abort code is handed to the server transferring the object; every other server keeps its own"); }
    if (first >= 0) { __CPROVER_assert(0, "REACH:a"); } else { __CPROVER_assert(0, "REACH:b"); }
#elif VW_OP == 7
    /* COObjInit: the type's Init runs exactly once for an entry whose type has one; entries of a type without Init are fine */
    V_EO[0].Type = H_HAS[0] ? &T_WITH : &T_WITHOUT; N_INIT = 0;
    CO_ERR e = COObjInit(&V_EO[0], &V_NODE);
    __CPROVER_assert(N_INIT == (H_HAS[0] ? 1u : 0u) && (H_HAS[0] ? (A_INITOBJ == &V_EO[0] && e == H_INITRES) : e == CO_ERR_NONE), "COObjInit: the type-specific initialisation runs exactly once for this entry and its result is passed on");
    if (H_HAS[0]) { __CPROVER_assert(0, "REACH:a"); } else { __CPROVER_assert(0, "REACH:b"); }
#else
    CO_MODE m = CONmtGetMode(&V_NODE.Nmt); uint8_t id = CONmtGetNodeId(&V_NODE.Nmt);
    __CPROVER_assert(m == V_NODE.Nmt.Mode && id == V_NODE.NodeId, "the accessors deliver the current NMT state and node id");
    __CPROVER_assert(0, "REACH:a"); __CPROVER_assert(0, "REACH:b");
#endif
    __CPROVER_assert(0, "REACH:post");
}
