/* LSS activate-bit-timing delay callback (co_lss.c, static CO_LssActivateBitTiming_SwitchDelay) - the timer action that
 * ends the bit-rate switch.  No listed property speaks about bit-timing activation beyond C01 (memory safety, termination,
 * no fatal callback) - see the observation F39 in DESIGN 9.3; the functional clauses below pin the two steps down so that
 * a change is noticed.  EXPLICIT form, -include'd in front of co_lss.c. */
#include "vw_defs.h"
#include "vw_node.h"
uint32_t N_CINIT, N_CENABLE, A_BAUD, N_SETMODE, N_TDEL; CO_MODE A_MODE; int16_t A_TID;
void COIfCanInit(CO_IF *cif, struct CO_NODE_T *node) { __CPROVER_assert(cif == &V_NODE.If && node == &V_NODE, "COIfCanInit requires"); N_CINIT++; }
void COIfCanEnable(CO_IF *cif, uint32_t baudrate) { __CPROVER_assert(cif == &V_NODE.If, "COIfCanEnable requires"); N_CENABLE++; A_BAUD = baudrate; }
void CONmtSetMode(CO_NMT *nmt, CO_MODE mode) { __CPROVER_assert(nmt == &V_NODE.Nmt, "CONmtSetMode requires"); N_SETMODE++; A_MODE = mode; }
int16_t COTmrDelete(CO_TMR *tmr, int16_t actId) { __CPROVER_assert(tmr == &V_NODE.Tmr, "COTmrDelete requires"); N_TDEL++; A_TID = actId; int16_t r; return r; }
void CONodeFatalError(void) { __CPROVER_assert(0, "CONodeFatalError must not be reached"); }
void harness(void)
{
    vw_node_init();
    CO_LSS l0 = V_NODE.Lss;
    N_CINIT = N_CENABLE = N_SETMODE = N_TDEL = 0;
    CO_LssActivateBitTiming_SwitchDelay(&V_NODE.Lss);
    if (l0.Step == CO_LSS_ACT_DELAY_1) {
        __CPROVER_assert(N_CINIT == 1 && N_CENABLE == 1 && A_BAUD == l0.CfgBaudrate && V_NODE.Lss.Step == CO_LSS_ACT_DELAY_2 && N_SETMODE == 0 && N_TDEL == 0 && V_NODE.Lss.Tmr == l0.Tmr, "first delay over: the CAN controller is re-initialised with the configured bit rate, the second delay runs");
        __CPROVER_assert(0, "REACH:a");
    } else {
        __CPROVER_assert(N_SETMODE == 1 && A_MODE == CO_PREOP && N_TDEL == 1 && A_TID == l0.Tmr && V_NODE.Lss.Tmr == -1 && V_NODE.Lss.Step == 0 && N_CINIT == 0 && N_CENABLE == 0, "second delay over: the node returns to PRE-OPERATIONAL, the delay action is deleted (exactly its own id) and forgotten");
        __CPROVER_assert(0, "REACH:b");
    }
    __CPROVER_assert(V_NODE.Lss.Mode == l0.Mode && V_NODE.Lss.CfgBaudrate == l0.CfgBaudrate && V_NODE.Lss.CfgNodeId == l0.CfgNodeId && V_NODE.Lss.Flags == l0.Flags, "the LSS state and the pending configuration are untouched");
    __CPROVER_assert(0, "REACH:post");
}
