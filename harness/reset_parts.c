/* the service (re)initialisations CONmtReset / CONodeInit rely on and that have no group of their own elsewhere:
 * COSyncInit (co_sync.c), COLssInit (co_lss.c), COTmrClear (co_tmr.c) - properties C20, C01; EXPLICIT form.  Each is
 * checked against the contract that nmt_reset.c ASSUMES for it (reset.h *_ord), plus its frame.
 * -DVW_OP=0 COSyncInit 1 COLssInit 2 COTmrClear. */
#include "vw_defs.h"
#include "vw_node.h"
uint32_t N_TDEL; int16_t D_ID[2 * CO_TPDO_N + 2]; _Bool H_HAS[5]; uint32_t H_SZ[5]; CO_OBJ V_ID[5];
int16_t COTmrDelete(CO_TMR *tmr, int16_t actId) { __CPROVER_assert(tmr == &V_NODE.Tmr && actId >= 0, "COTmrDelete requires: a valid id"); if (N_TDEL < 2 * CO_TPDO_N + 2) { D_ID[N_TDEL] = actId; } N_TDEL++; int16_t r; return r; }
CO_OBJ *CODictFind(CO_DICT *cod, uint32_t key) { uint8_t sub = (uint8_t)(key >> 8); if ((key >> 16) == 0x1018 && sub >= 1 && sub <= 4 && H_HAS[sub]) { return &V_ID[sub]; } return 0; }
uint32_t COObjGetSize(struct CO_OBJ_T *o, struct CO_NODE_T *n, uint32_t width) { for (int k = 1; k <= 4; k++) { if (o == &V_ID[k]) { return H_SZ[k]; } } __CPROVER_assert(0, "COObjGetSize requires: an identity entry"); return 0; }
void CONodeFatalError(void) { __CPROVER_assert(0, "CONodeFatalError must not be reached"); }
void harness(void)
{
    vw_node_init();
    __CPROVER_assume(G_K < 4);
#if VW_OP == 0
    CO_TPDO t0 = V_NODE.TPdo[G_K]; CO_RPDO r0 = V_NODE.RPdo[G_K];
    COSyncInit(&V_NODE.Sync, &V_NODE);
    __CPROVER_assert(V_NODE.Sync.Node == &V_NODE && V_NODE.Sync.Tmr == -1 && V_NODE.Sync.CobId == 0 && V_NODE.Sync.Cycle == 0, "SYNC init: linked to the node, no producer timer, no COB-ID, no cycle (the entries 1005h/1006h set them in their type initialisation)");
    __CPROVER_assert(V_NODE.Sync.TPdo[G_K] == 0 && V_NODE.Sync.TNum[G_K] == 0 && V_NODE.Sync.TSync[G_K] == 0 && V_NODE.Sync.RPdo[G_K] == 0 && V_NODE.Sync.RFrm[G_K].Identifier == CO_RPDO_COBID_OFF, "SYNC init: both PDO tables empty, no buffered RPDO frame pending");
    __CPROVER_assert(V_NODE.TPdo[G_K].Identifier == t0.Identifier && V_NODE.TPdo[G_K].Flags == t0.Flags && V_NODE.RPdo[G_K].Identifier == r0.Identifier && V_NODE.RPdo[G_K].Flag == r0.Flag, "frame: the PDOs themselves are untouched");
    __CPROVER_assert(0, "REACH:a"); __CPROVER_assert(0, "REACH:b");
#elif VW_OP == 1
    CO_ERR e0 = V_NODE.Error;
    COLssInit(&V_NODE.Lss, &V_NODE);
    _Bool ok = 1; for (int k = 1; k <= 4; k++) { if (!H_HAS[k] || H_SZ[k] != 4) { ok = 0; } }
    __CPROVER_assert(V_NODE.Lss.Node == &V_NODE && V_NODE.Lss.Tmr == -1 && V_NODE.Lss.Flags == 0 && V_NODE.Lss.Step == 0 && V_NODE.Lss.CfgBaudrate == 0 && V_NODE.Lss.CfgNodeId == 0, "LSS init: no timer, no pending configuration, address selection at its first step");
    __CPROVER_assert(V_NODE.Lss.Mode == (ok ? CO_LSS_WAIT : CO_LSS_EXIT) && V_NODE.Error == (ok ? e0 : CO_ERR_CFG_1018), "LSS init: waiting exactly if the identity 1018h:1..4 exists with 32-bit entries, else switched off with a configuration error");
    if (ok) { __CPROVER_assert(0, "REACH:a"); } else { __CPROVER_assert(0, "REACH:b"); }
#else
    __CPROVER_assume(V_NODE.Nmt.Tmr >= -1); for (int k = 0; k < CO_TPDO_N; k++) { __CPROVER_assume(V_NODE.TPdo[k].EvTmr >= -1 && V_NODE.TPdo[k].InTmr >= -1); }   /* WF_NMT / WF_PDO: a timer id is -1 or valid */
    int16_t hb = V_NODE.Nmt.Tmr; CO_TPDO t0 = V_NODE.TPdo[G_K]; int16_t sy = V_NODE.Sync.Tmr, ls = V_NODE.Lss.Tmr;
    uint32_t want = (hb > -1 ? 1u : 0u); for (int k = 0; k < CO_TPDO_N; k++) { want += (V_NODE.TPdo[k].EvTmr > -1 ? 1u : 0u) + (V_NODE.TPdo[k].InTmr > -1 ? 1u : 0u); }
    N_TDEL = 0;
    COTmrClear(&V_NODE.Tmr);
    __CPROVER_assert(V_NODE.Nmt.Tmr == -1 && V_NODE.TPdo[G_K].EvTmr == -1 && V_NODE.TPdo[G_K].InTmr == -1, "timer clear: the heartbeat producer and every TPDO own no timer afterwards");
    __CPROVER_assert(N_TDEL == want && (hb <= -1 || D_ID[0] == hb), "timer clear: exactly the owned timers are deleted, each once (application timers keep running)");
    __CPROVER_assert(V_NODE.Sync.Tmr == sy && V_NODE.Lss.Tmr == ls && V_NODE.TPdo[G_K].Identifier == t0.Identifier && V_NODE.TPdo[G_K].Flags == t0.Flags && V_NODE.TPdo[G_K].ObjNum == t0.ObjNum, "frame: nothing else changes");
    if (want == 2 * CO_TPDO_N + 1) { __CPROVER_assert(0, "REACH:a"); }
    if (want == 0) { __CPROVER_assert(0, "REACH:b"); }
#endif
    __CPROVER_assert(0, "REACH:post");
}
