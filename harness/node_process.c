/* CONodeProcess (co_core.c) in EXPLICIT form: the dispatcher over stubs that implement the (relevant clauses
 * of the) callee contracts and log the calls.  Each stub's behaviour is a consequence of a contract proved
 * elsewhere, named at the stub.  Asserted: per-state service gating, at most one service handles a frame,
 * LSS frames are never passed on, a response goes out exactly for verdicts NONE/ABORT, unclaimed frames are
 * handed to the application exactly once without transmission (C09, C04, C18, C01). */
#include "vw_defs.h"
#include "vw_node.h"
#include "nmt.h"
uint32_t N_READ, N_LSS, N_SDOCHK, N_SDORSP, N_CSDOCHK, N_CSDORSP, N_NMTCHK, N_HBCCHK, N_RPDOCHK, N_RPDORX, N_SYNCUPD, N_SYNCHDL, N_RECV, N_SEND;
int16_t H_READRES, H_LSSRES; CO_IF_FRM H_RXFRM; _Bool H_SDOCLAIM, H_CSDOCLAIM, H_HBCCLAIM, H_RPDOCLAIM; CO_ERR H_SDOERR, H_CSDOERR;
uint32_t H_SYNCID; uint32_t N_CLAIMED; CO_IF_FRM *P_FRM; uint32_t H_ID0;
/* L0 driver: any result; on success the frame is whatever arrived */
int16_t COIfCanRead(struct CO_IF_T *cif, CO_IF_FRM *frm) { N_READ++; P_FRM = frm; __CPROVER_assert(cif == &V_NODE.If, "COIfCanRead requires"); *frm = H_RXFRM; H_ID0 = frm->Identifier; return H_READRES; }
int16_t COIfCanSend(struct CO_IF_T *cif, CO_IF_FRM *frm) { N_SEND++; __CPROVER_assert(cif == &V_NODE.If && frm == P_FRM, "COIfCanSend requires"); int16_t r; return r; }
void COIfCanReceive(CO_IF_FRM *frm) { N_RECV++; __CPROVER_assert(frm == P_FRM, "COIfCanReceive requires"); }
/* COLssCheck (lss.h, group lss_check): 0 for every identifier other than 7E5h, 1 or -1 for 7E5h */
int16_t COLssCheck(CO_LSS *lss, CO_IF_FRM *frm)
{
    N_LSS++; __CPROVER_assert(lss == &V_NODE.Lss && frm == P_FRM, "COLssCheck requires");
    if (frm->Identifier != 0x7E5) { return 0; }
    __CPROVER_assume(H_LSSRES == 1 || H_LSSRES == -1); if (H_LSSRES == 1) { frm->Identifier = 0x7E4; } N_CLAIMED++; return H_LSSRES;
}
/* COSdoCheck (sdo.h, group sdo_check): NULL or the addressed server; the identifier becomes the response identifier */
CO_SDO *COSdoCheck(CO_SDO *srv, CO_IF_FRM *frm) { N_SDOCHK++; __CPROVER_assert(srv == V_NODE.Sdo && frm == P_FRM, "COSdoCheck requires"); if (H_SDOCLAIM) { N_CLAIMED++; return &V_NODE.Sdo[0]; } return 0; }
/* COSdoResponse (sdo.h, group sdo_response): NONE, ABORT or SILENT */
CO_ERR COSdoResponse(CO_SDO *srv) { N_SDORSP++; __CPROVER_assert(srv == &V_NODE.Sdo[0], "COSdoResponse requires: the server COSdoCheck returned"); __CPROVER_assume(H_SDOERR == CO_ERR_NONE || H_SDOERR == CO_ERR_SDO_ABORT || H_SDOERR == CO_ERR_SDO_SILENT); return H_SDOERR; }
CO_CSDO *COCSdoCheck(CO_CSDO *csdo, CO_IF_FRM *frm) { N_CSDOCHK++; __CPROVER_assert(csdo == V_NODE.CSdo && frm == P_FRM, "COCSdoCheck requires"); if (H_CSDOCLAIM) { N_CLAIMED++; return &V_NODE.CSdo[0]; } return 0; }
CO_ERR COCSdoResponse(CO_CSDO *csdo) { N_CSDORSP++; __CPROVER_assert(csdo == &V_NODE.CSdo[0], "COCSdoResponse requires"); return H_CSDOERR; }
/* CONmtCheck (nmt.h, group nmt_check): claims exactly identifier 0 */
int16_t CONmtCheck(CO_NMT *nmt, CO_IF_FRM *frm) { N_NMTCHK++; __CPROVER_assert(nmt == &V_NODE.Nmt && frm == P_FRM, "CONmtCheck requires"); if (frm->Identifier == 0) { N_CLAIMED++; return 0; } return -1; }
/* CONmtHbConsCheck (hbc.h): claims only heartbeat identifiers 701h..77Fh of monitored nodes */
int16_t CONmtHbConsCheck(CO_NMT *nmt, CO_IF_FRM *frm) { N_HBCCHK++; __CPROVER_assert(nmt == &V_NODE.Nmt && frm == P_FRM, "CONmtHbConsCheck requires"); if (H_HBCCLAIM && frm->Identifier > 0x700 && frm->Identifier < 0x780) { N_CLAIMED++; return 0; } return -1; }
CO_RPDO *CORPdoCheck(CO_RPDO *pdo, CO_IF_FRM *frm) { N_RPDOCHK++; __CPROVER_assert(pdo == V_NODE.RPdo && frm == P_FRM, "CORPdoCheck requires"); if (H_RPDOCLAIM) { N_CLAIMED++; return &V_NODE.RPdo[0]; } return 0; }
void CORPdoRx(CO_RPDO *pdo, CO_IF_FRM *frm) { N_RPDORX++; __CPROVER_assert(pdo == &V_NODE.RPdo[0] && frm == P_FRM, "CORPdoRx requires"); }
/* COSyncUpdate (sync.h): claims exactly the identifier stored in 1005h */
int16_t COSyncUpdate(CO_SYNC *sync, CO_IF_FRM *frm) { N_SYNCUPD++; __CPROVER_assert(sync == &V_NODE.Sync && frm == P_FRM, "COSyncUpdate requires"); if (frm->Identifier == H_SYNCID) { N_CLAIMED++; return 0; } return -1; }
void COSyncHandler(CO_SYNC *sync) { N_SYNCHDL++; __CPROVER_assert(sync == &V_NODE.Sync, "COSyncHandler requires"); }
void harness(void)
{
    vw_node_init();
    __CPROVER_assume(WF_NMT());
    N_READ = N_LSS = N_SDOCHK = N_SDORSP = N_CSDOCHK = N_CSDORSP = N_NMTCHK = N_HBCCHK = N_RPDOCHK = N_RPDORX = N_SYNCUPD = N_SYNCHDL = N_RECV = N_SEND = N_CLAIMED = 0;
    uint8_t al = V_NODE.Nmt.Allowed;
    CONodeProcess(&V_NODE);
    _Bool got = H_READRES > 0;
    _Bool lss = got && H_ID0 == 0x7E5;
    __CPROVER_assert(N_READ == 1, "exactly one driver read per step");
    __CPROVER_assert(!got ==> (N_LSS + N_SDOCHK + N_CSDOCHK + N_NMTCHK + N_HBCCHK + N_RPDOCHK + N_SYNCUPD + N_RECV + N_SEND == 0), "no frame (or driver fault): nothing happens");
    __CPROVER_assert(got ==> N_LSS == 1, "every received frame is offered to LSS first");
    __CPROVER_assert(lss ==> (N_SDOCHK + N_CSDOCHK + N_NMTCHK + N_HBCCHK + N_RPDOCHK + N_SYNCUPD + N_RECV == 0 && N_SEND == (H_LSSRES > 0 ? 1 : 0)), "LSS frames are never passed on; one response iff the service answers");
    /* gating by NMT state */
    __CPROVER_assert((N_SDOCHK + N_SDORSP + N_CSDOCHK + N_CSDORSP > 0) ==> (al & CO_SDO_ALLOWED) != 0, "SDO only where the state permits");
    __CPROVER_assert((N_NMTCHK + N_HBCCHK > 0) ==> (al & CO_NMT_ALLOWED) != 0, "NMT/heartbeat only where the state permits");
    __CPROVER_assert((N_RPDOCHK + N_RPDORX > 0) ==> (al & CO_PDO_ALLOWED) != 0, "PDO only in OPERATIONAL");
    __CPROVER_assert((N_SYNCUPD + N_SYNCHDL > 0) ==> (al & CO_SYNC_ALLOWED) != 0, "SYNC only where the state permits");
    __CPROVER_assert((got && !lss && (al & CO_SDO_ALLOWED)) ==> N_SDOCHK == 1, "a permitted service is offered the frame");
    /* at most one service handles a frame */
    __CPROVER_assert(N_CLAIMED <= 1, "each frame is claimed by at most one service");
    __CPROVER_assert(N_SDORSP + N_CSDORSP + N_RPDORX + N_SYNCHDL <= 1 && N_SDORSP <= (H_SDOCLAIM ? 1 : 0), "at most one handler runs");
    /* response exactly for verdict NONE / ABORT of the SDO server (client: same rule) */
    __CPROVER_assert(N_SDORSP == 1 ==> N_SEND == ((H_SDOERR == CO_ERR_NONE || H_SDOERR == CO_ERR_SDO_ABORT) ? 1 : 0), "SDO server: one response frame iff verdict NONE or ABORT");
    __CPROVER_assert((N_SDORSP == 0 && N_CSDORSP == 0 && !lss) ==> N_SEND == 0, "nothing is transmitted for frames no SDO/LSS service answers");
    /* unclaimed frames go to the application exactly once, claimed ones never */
    __CPROVER_assert((got && N_CLAIMED == 0 && al != 0) ==> (N_RECV == 1 && N_SEND == 0), "an unclaimed frame is handed to the application exactly once, nothing is transmitted");
    __CPROVER_assert((N_CLAIMED > 0 || !got || al == 0) ==> N_RECV == 0, "claimed frames (and frames of a stopped node) are not handed to the application");
    __CPROVER_assert(N_SEND <= 1, "CONodeProcess itself transmits at most one frame");
    if (N_RECV == 1) { __CPROVER_assert(0, "REACH:a"); }
    if (N_SDORSP == 1 && N_SEND == 0) { __CPROVER_assert(0, "REACH:b"); }
    if (N_SYNCHDL == 1) { __CPROVER_assert(0, "REACH:c"); }
    if (lss && N_SEND == 1) { __CPROVER_assert(0, "REACH:d"); }
    __CPROVER_assert(0, "REACH:post");
}
