/* leaf proofs of co_string.c; -include'd in front of the TU. -DVW_OP=0..3 (Size,Read,Init,Reset) */
#include "vw_defs.h"
uint32_t H_STRSZ, H_NUL;
#include "string.h"
#include <stdlib.h>
_Bool H_NULLDATA;
void harness(void)
{
    V_O.Data = H_NULLDATA ? (CO_DATA)0 : (CO_DATA)&V_STR;
    V_STR.Start = malloc(H_STRSZ);
    H_BUF = malloc(H_BUFSZ);
    __CPROVER_assume(V_STR.Start != NULL && H_BUF != NULL);
#if VW_OP == 0
    __CPROVER_assume(STR_PRE());
    uint32_t o0 = V_STR.Offset; uint8_t d0 = G_K < H_STRSZ ? V_STR.Start[G_K] : 0;
    uint32_t r = COTStringSize(&V_O, &V_NODE, H_SIZE);
    __CPROVER_assert(STR_SIZE_POST(r), "ensures: result is the position of the first NUL");
    __CPROVER_assert(V_STR.Offset == o0 && (G_K < H_STRSZ ==> V_STR.Start[G_K] == d0), "frame: nothing changes");
    if (r > 3) { __CPROVER_assert(0, "REACH:long"); }
#elif VW_OP == 1
    __CPROVER_assume(STR_READ_PRE(H_SIZE));
    uint32_t o0 = V_STR.Offset; uint8_t *st0 = V_STR.Start; CO_OBJ ob0 = V_O;
    uint8_t d0 = G_K < H_STRSZ ? V_STR.Start[G_K] : 0;
    H_BK0 = G_K < H_BUFSZ ? H_BUF[G_K] : 0;
    CO_ERR r = COTStringRead(&V_O, &V_NODE, H_BUF, H_SIZE);
    __CPROVER_assert(STR_READ_POST(r, H_SIZE, o0), "ensures: min(size, remaining) bytes moved, none of them NUL, rest of buffer untouched");
    __CPROVER_assert(V_STR.Start == st0 && V_O.Key == ob0.Key && V_O.Type == ob0.Type && V_O.Data == ob0.Data &&
                     (G_K < H_STRSZ ==> V_STR.Start[G_K] == d0), "frame: the string object is unchanged by a read");
    if (V_STR.Offset > o0 + 3 && V_STR.Offset - o0 < H_SIZE) { __CPROVER_assert(0, "REACH:clipped"); }
    if (V_STR.Offset - o0 == H_SIZE && H_SIZE > 3) { __CPROVER_assert(0, "REACH:full"); }
#elif VW_OP == 2
    (void)COTStringInit(&V_O, &V_NODE);
#else
    (void)COTStringReset(&V_O, &V_NODE, H_SIZE);
#endif
    __CPROVER_assert(0, "REACH:post");
}
