#include "vw_defs.h"
#include "dict.h"
void harness(void)
{
    vw_dict_alloc();
    G_INIT_CNT = 0; G_INIT_ALL = 0;
    (void)CODictObjInit(&V_NODE.Dict, &V_NODE);
    /* lemma: the number of initialised entries is Num (dictionary invariant instantiated at n) */
    vw_sorted_inst(&V_NODE.Dict, (int32_t)G_INIT_ALL, (int32_t)G_INIT_ALL);
    __CPROVER_assert(G_INIT_ALL == V_NODE.Dict.Num, "lemma: exactly Num entries were initialised");
    __CPROVER_assert(G_K < V_NODE.Dict.Num ==> G_INIT_CNT == 1, "lemma: every configured entry initialised exactly once");
    __CPROVER_assert(0, "REACH:post");
    if (G_INIT_ALL > 3) { __CPROVER_assert(0, "REACH:some"); }
}
