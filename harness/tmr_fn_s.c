/* tmr_fn.c with a REDUCED pre-state family: every used timer event owns exactly its own action (no two actions share an
 * event), everything else as in tmr_fn.c (all list orders, deltas, periods, counter values symbolic).  COTmrService never
 * looks at the action lists, so this restriction loses nothing for the event lists it maintains, and it makes a pool of THREE
 * events affordable in the quick tier (seeded change C07_H2 - the elapsed list breaks from the third waiting event on - is
 * invisible to the pool of 2).  The restriction is injected behind vw_node_init(); tmr_fn.c itself is included unchanged. */
#include "vw_defs.h"
#include "vw_node.h"
static void vw_restrict(void);
#define vw_node_init() (vw_node_init(), vw_restrict())
#include "tmr_fn.c"
#undef vw_node_init
static void vw_restrict(void) { for (int k = 0; k < N; k++) { __CPROVER_assume(H_AEV[k] == (H_EST[k] != 0 ? k : -1)); } }
