/* SDO server functions against sdo.h. -DVW_FN=<function> -DVW_ARGS=<extra args> */
#include "vw_defs.h"
#include "vw_node.h"
#include "dictv.h"
#include "sdo.h"
uint16_t H_OBJIDX[CO_SSDO_N];
uint32_t H_A32; uint16_t H_A16; _Bool H_AB;
void harness(void)
{
    vw_node_init();
    vw_dict_alloc();
    /* an open transfer addresses some configured entry */
    for (int n = 0; n < CO_SSDO_N; n++) {
        __CPROVER_assume(!H_SDOOBJ[n] || H_OBJIDX[n] < G_DNUM);
        V_NODE.Sdo[n].Obj = H_SDOOBJ[n] ? &G_DROOT[H_OBJIDX[n]] : (CO_OBJ *)0;
    }
    __CPROVER_assume(G_N < CO_SSDO_N);
    G_MUX_I = spec_find(CO_DEV(V_NODE.Sdo[G_N].Idx, V_NODE.Sdo[G_N].Sub)); G_MUX0_I = spec_find(CO_DEV(V_NODE.Sdo[G_N].Idx, 0));
    uint32_t tx0 = G_TX_N;
    VW_CALL;
    __CPROVER_assert(0, "REACH:post");
    VW_REACH
}
