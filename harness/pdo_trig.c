/* Application-side TPDO triggers (co_pdo.c, property C12), EXPLICIT form.  -DVW_OP=0 COTPdoTrigPdo 1 COTPdoTrigObj.
 * The callee in the same translation unit (COTPdoTx resp. COTPdoTrigPdo) is replaced by a stub of its contract: its body
 * is removed from the goto binary of the real co_pdo.c on every run (vf.py stub_bodies) and the stub below logs the call.
 * COTPdoTx itself is the group tpdo_tx, COTPdoTrigPdo the group tpdo_trig_pdo.
 * Specification of COTPdoTrigObj without counting over the 32 table slots (adder-chain equivalences do not get through
 * SAT): ghost slot G_K and ghost TPDO numbers G_P (= the number in slot G_K) and G_Q (any):
 *   every TPDO the object is linked to is triggered; a TPDO number no link of the object names is never triggered;
 *   a TPDO named by exactly one link of the object is triggered exactly once; nothing else happens. */
#include "vw_defs.h"
#include "vw_node.h"
uint32_t N_TX; CO_TPDO *L_TX; uint8_t N_P, N_Q, N_ANY; uint16_t G_P, G_Q;
uint16_t H_NUM; uint8_t H_LINK[CO_TPDO_N * 8]; CO_OBJ V_OTHER;
#if VW_OP == 0
void COTPdoTx(CO_TPDO *pdo) { __CPROVER_assert(__CPROVER_same_object(pdo, V_NODE.TPdo), "COTPdoTx requires: a TPDO of the node"); N_TX++; L_TX = pdo; }
#else
static uint8_t sat2(uint8_t x) { return x < 2 ? x + 1 : 2; }
void COTPdoTrigPdo(CO_TPDO *pdo, uint16_t num)
{
    __CPROVER_assert(pdo == V_NODE.TPdo, "COTPdoTrigPdo requires: the node's TPDO array");
    N_ANY = sat2(N_ANY); if (num == G_P) { N_P = sat2(N_P); } if (num == G_Q) { N_Q = sat2(N_Q); }
}
#endif
void harness(void)
{
    vw_node_init();
    CO_ERR e0 = V_NODE.Error;
#if VW_OP == 0
    N_TX = 0;
    COTPdoTrigPdo(V_NODE.TPdo, H_NUM);
    if (H_NUM < CO_TPDO_N) { __CPROVER_assert(N_TX == 1 && L_TX == &V_NODE.TPdo[H_NUM] && V_NODE.Error == e0, "triggering a configured TPDO number is exactly one transmission attempt of exactly that TPDO"); }
    else { __CPROVER_assert(N_TX == 0 && V_NODE.Error == CO_ERR_TPDO_NUM_TRIGGER, "any other number transmits nothing and reports CO_ERR_TPDO_NUM_TRIGGER"); }
    if (H_NUM >= CO_TPDO_N) { __CPROVER_assert(0, "REACH:a"); }
    if (H_NUM == CO_TPDO_N - 1) { __CPROVER_assert(0, "REACH:b"); }
#else
    _Bool q_linked = 0, p_other = 0;
    __CPROVER_assume(G_K < CO_TPDO_N * 8u);
    for (int n = 0; n < CO_TPDO_N * 8; n++) { V_NODE.TMap[n].Obj = H_LINK[n] == 0 ? (CO_OBJ *)0 : H_LINK[n] == 1 ? &V_O : &V_OTHER; }
    G_P = V_NODE.TMap[G_K].Num;
    for (int n = 0; n < CO_TPDO_N * 8; n++) {
        if (V_NODE.TMap[n].Obj == &V_O && V_NODE.TMap[n].Num == G_Q) { q_linked = 1; }
        if (n != (int)G_K && V_NODE.TMap[n].Obj == &V_O && V_NODE.TMap[n].Num == G_P) { p_other = 1; }
    }
    CO_TPDO_LINK l0 = V_NODE.TMap[G_K];
    N_P = N_Q = N_ANY = 0;
    COTPdoTrigObj(V_NODE.TPdo, &V_O);
    if (CO_IS_PDOMAP(V_O.Key) != 0) {
        __CPROVER_assert(l0.Obj == &V_O ==> N_P >= 1, "a changed mappable object triggers every TPDO it is linked to (no trigger lost)");
        __CPROVER_assert(!q_linked ==> N_Q == 0, "a TPDO the object is not linked to is not triggered");
        __CPROVER_assert((l0.Obj == &V_O && !p_other) ==> N_P == 1, "a TPDO named by exactly one link of the object is triggered exactly once");
        __CPROVER_assert(V_NODE.Error == e0, "triggering by object reports no error");
    } else {
        __CPROVER_assert(N_ANY == 0 && V_NODE.Error == CO_ERR_TPDO_OBJ_TRIGGER, "an object that is not mappable triggers nothing and reports CO_ERR_TPDO_OBJ_TRIGGER");
    }
    __CPROVER_assert(V_NODE.TMap[G_K].Obj == l0.Obj && V_NODE.TMap[G_K].Num == l0.Num, "the link table is only read");
    if (N_ANY == 2 && N_P == 1) { __CPROVER_assert(0, "REACH:a"); }
    if (CO_IS_PDOMAP(V_O.Key) == 0) { __CPROVER_assert(0, "REACH:b"); }
#endif
    __CPROVER_assert(0, "REACH:post");
}
