/* SDO block UPLOAD data path (co_ssdo.c COSdoUploadBlock / COSdoAckUploadBlock) - property C03, EXPLICIT form,
 * per-step inductive, BOUNDED in the block size only (blksize <= VW_BLK_MAX segments, so that the byte-move and send
 * loops unwind completely); object size, position in the object, acknowledge position and history are unbounded.
 *
 * Abstract stream model (ghosts):  H_T total object size, H_A absolute object offset of Buf.Start[0], G_F the
 * object layer's read position (advanced by the read stub), G_O / G_OV a universally quantified object offset and
 * the byte the object holds there.  Data invariant INV_ULB after every block (mode BLK_UPLOAD):
 *     1 <= LastValid <= 7,  sent = 7*(SegCnt-1) + LastValid,  Len == H_T - H_A - sent,  Len > 0 => (LastValid == 7, SegCnt == SegNum, G_F == H_A + 7*SegCnt)
 *     Size > 0 => G_F == H_T - Size,  Size == 0 => G_F >= H_T,  H_A + sent <= G_F <= H_A + 7*SegNum
 *     H_A <= G_O < min(G_F, H_T)  =>  Buf.Start[G_O - H_A] == G_OV          (the buffer holds the object's bytes)
 * One step = 'start upload' (A3h) after the initiate, or one acknowledge A2h (ackseq, blksize) - next block, go-back-N
 * repeat from any acknowledged prefix (including none), or end.  The CAN send stub checks EVERY segment frame:
 * sequence numbers count from 1, the segment at stream position p carries the object's bytes [p, p+7) in order,
 * the c bit sits exactly on the segment with the last byte; the step re-establishes INV_ULB.
 * -DVW_OP=0 start, 1 acknowledge. */
#include "vw_defs.h"
#include "vw_node.h"
#define S (V_NODE.Sdo[0])
#ifndef VW_BLK_MAX
#define VW_BLK_MAX 3
#endif
CO_OBJ V_OBJ0; uint32_t H_T, H_A, G_F, G_O, G_SENDPOS, N_TX, R_N, G_LASTLEN; uint8_t G_OV; CO_ERR H_RRES; _Bool G_SAWLAST;
static CO_ERR rd(int kind, CO_OBJ *obj, CO_NODE *node, uint8_t *b, uint32_t n)
{
    __CPROVER_assert(obj == &V_OBJ0 && node == &V_NODE && b != 0 && __CPROVER_w_ok(b, n), "object read requires: the open entry, a buffer writable for the length (inside the transfer buffer)");
    R_N++;
    if (G_O >= G_F && G_O - G_F < n && G_O < H_T) { b[G_O - G_F] = G_OV; }      /* the stream device delivers the object's bytes from its position */
    G_F += n;
    return CO_ERR_NONE;
}
CO_ERR COObjRdBufStart(struct CO_OBJ_T *o, struct CO_NODE_T *n, uint8_t *b, uint32_t s) { G_F = 0; return rd(1, o, n, b, s); }
CO_ERR COObjRdBufCont(struct CO_OBJ_T *o, struct CO_NODE_T *n, uint8_t *b, uint32_t s) { return rd(2, o, n, b, s); }
CO_ERR COObjWrBufCont(struct CO_OBJ_T *o, struct CO_NODE_T *n, uint8_t *b, uint32_t s) { __CPROVER_assert(0, "an upload never writes the object"); return CO_ERR_NONE; }
CO_ERR COObjWrBufStart(struct CO_OBJ_T *o, struct CO_NODE_T *n, uint8_t *b, uint32_t s) { __CPROVER_assert(0, "an upload never writes the object"); return CO_ERR_NONE; }
CO_ERR COObjWrValue(struct CO_OBJ_T *o, struct CO_NODE_T *n, void *v, uint8_t w) { __CPROVER_assert(0, "an upload never writes the object"); return CO_ERR_NONE; }
CO_ERR COObjRdValue(struct CO_OBJ_T *o, struct CO_NODE_T *n, void *v, uint8_t w) { CO_ERR e; return e; }
uint32_t COObjGetSize(struct CO_OBJ_T *o, struct CO_NODE_T *n, uint32_t width) { return H_T; }
CO_OBJ *CODictFind(CO_DICT *cod, uint32_t key) { return 0; }
int16_t COIfCanSend(struct CO_IF_T *cif, CO_IF_FRM *frm)
{
    __CPROVER_assert(cif == &V_NODE.If && frm == &V_FRM && frm->DLC == 8, "COIfCanSend requires; segment frames have 8 bytes");
    N_TX++;
    uint32_t rem = H_T - G_SENDPOS, len = rem > 7 ? 7 : rem;
    __CPROVER_assert(!G_SAWLAST, "no segment follows the one marked as last");
    __CPROVER_assert((frm->Data[0] & 0x7F) == N_TX, "segment sequence numbers count from 1 within a block");
    __CPROVER_assert(((frm->Data[0] & 0x80) != 0) == (rem <= 7), "the c bit marks exactly the segment that carries the last byte of the object");
    if (G_O >= G_SENDPOS && G_O - G_SENDPOS < len) { __CPROVER_assert(frm->Data[1 + ((G_O - G_SENDPOS) & 7)] == G_OV, "the segment at stream position p carries the object's bytes [p, p+7) in order"); }
    if (frm->Data[0] & 0x80) { G_SAWLAST = 1; }
    G_LASTLEN = len; G_SENDPOS += len;
    int16_t r; return r;
}
#define SENT(s) (7u * ((s).Blk.SegCnt - 1u) + (s).Blk.LastValid)
static _Bool inv_ulb(void)
{
    if (!(S.Obj == &V_OBJ0 && S.Blk.State == BLK_UPLOAD && S.Blk.SegCnt >= 1 && S.Blk.SegCnt <= S.Blk.SegNum && S.Blk.SegNum <= VW_BLK_MAX && S.Blk.LastValid >= 1 && S.Blk.LastValid <= 7)) { return 0; }
    if (!(H_A <= H_T && SENT(S) <= H_T - H_A && S.Blk.Len == H_T - H_A - SENT(S))) { return 0; }
    if (S.Blk.Len > 0 && !(S.Blk.LastValid == 7 && S.Blk.SegCnt == S.Blk.SegNum && G_F == H_A + 7u * S.Blk.SegCnt)) { return 0; }
    if (S.Blk.Size > H_T || (S.Blk.Size > 0 ? G_F != H_T - S.Blk.Size : G_F < H_T)) { return 0; }
    if (!(G_F >= H_A + SENT(S) && G_F - H_A <= 7u * S.Blk.SegNum)) { return 0; }
    if (G_O >= H_A && G_O < G_F && G_O < H_T && V_SDOBUF[G_O - H_A] != G_OV) { return 0; }
    return 1;
}
void harness(void)
{
    vw_node_init();
    S.Frm = &V_FRM; S.Obj = &V_OBJ0; S.Buf.Cur = S.Buf.Start; V_FRM.DLC = 8;
    __CPROVER_assume(H_T >= 1 && H_T <= 0x7FFFFFFFu && G_O < H_T);
    N_TX = R_N = 0; G_SAWLAST = 0; CO_IF_FRM f0 = V_FRM;
#if VW_OP == 0
    /* state after 'initiate block upload' (ensures of COSdoInitUploadBlock): nothing fetched, nothing sent */
    __CPROVER_assume(S.Blk.State == BLK_IDLE && S.Blk.SegNum >= 1 && S.Blk.SegNum <= VW_BLK_MAX && S.Blk.Size == H_T && S.Blk.Len == H_T && S.Blk.SegOk == 0 && S.Buf.Num == 0);
    G_F = 0; H_A = 0; G_SENDPOS = 0;
    CO_ERR e = COSdoUploadBlock(&S);
    __CPROVER_assert(e == CO_ERR_SDO_SILENT, "start: the block is sent by the step itself");
#else
    __CPROVER_assume(G_F <= 0x7FFFFFFFu + 1000u);
    __CPROVER_assume(inv_ulb());
    CO_SDO s0 = S; uint8_t seq = f0.Data[1], bs = f0.Data[2];
    __CPROVER_assume((f0.Data[0] & 0xE3) == 0xA2);
    /* the next block may use any block size the client asks for, up to the bound */
    __CPROVER_assume(bs <= VW_BLK_MAX);
    G_SENDPOS = H_A + 7u * seq;            /* go-back-N: the client has everything up to ackseq */
    if (seq > s0.Blk.SegCnt) { G_SENDPOS = 0; }
    CO_ERR e = COSdoAckUploadBlock(&S);
    if (seq > s0.Blk.SegCnt) {
        __CPROVER_assert(e == CO_ERR_SDO_ABORT && V_FRM.Data[0] == 0x80 && S.Obj == 0 && N_TX == 0, "acknowledge beyond the block: abort, nothing sent");
        __CPROVER_assert(0, "REACH:post"); return;
    }
    if (seq == s0.Blk.SegCnt && s0.Blk.Len == 0) {
        __CPROVER_assert(e == CO_ERR_NONE && N_TX == 0 && R_N == 0 && V_FRM.Data[0] == (0xC1 | ((7 - s0.Blk.LastValid) << 2)), "everything acknowledged: end of block upload C1h with n = bytes of the last segment that carry no data");
        __CPROVER_assert(0, "REACH:c");
        __CPROVER_assert(0, "REACH:post"); return;
    }
    if (seq == s0.Blk.SegCnt && (bs < 1)) {
        __CPROVER_assert(e == CO_ERR_SDO_ABORT && V_FRM.Data[0] == 0x80 && S.Obj == 0 && N_TX == 0, "block size 0: abort");
        __CPROVER_assert(0, "REACH:post"); return;
    }
    __CPROVER_assert(e == CO_ERR_SDO_SILENT, "acknowledge: the next / repeated block is sent by the step itself");
    if (seq < s0.Blk.SegCnt) { H_A = (seq > 0) ? H_A + 7u * seq : H_A; if (seq > 0) { __CPROVER_assert(0, "REACH:a"); } else { __CPROVER_assert(0, "REACH:b"); } }
    else { H_A = H_A + 7u * seq; }
#endif
#if VW_OP == 1
    if (seq == s0.Blk.SegCnt) { __CPROVER_assert(S.Blk.SegNum == bs, "the block size of a complete acknowledge is used for the next block"); }
    else { __CPROVER_assert(S.Blk.SegNum == bs, "REPEAT: the block size of a partial acknowledge is used for the repeated block"); }
#endif
    __CPROVER_assert(N_TX >= 1 && N_TX <= S.Blk.SegNum && (N_TX == S.Blk.SegNum || G_SAWLAST), "a block has 1..blksize segments and ends early only with the last byte of the object");
    __CPROVER_assert(S.Blk.SegCnt == N_TX && S.Blk.LastValid == G_LASTLEN && S.Blk.Len == H_T - G_SENDPOS, "bookkeeping: segments sent, valid bytes of the last one, bytes still to send");
    __CPROVER_assert(inv_ulb(), "INV_ULB re-established: the transfer buffer holds the object's bytes of the block just sent");
    __CPROVER_assert(0, "REACH:post");
}
