/* COSdoUploadBlock in EXPLICIT form (loop contracts + byte buffer: dfcc is intractable here, DESIGN 3.5a):
 * assume the requires (ULB_PRE), snapshot old(), call the real function, assert the ensures clauses of sdo.h.
 * Replaced callees are C stubs implementing their contracts: they assert the callee's requires (the
 * buffer handed to the object layer must be writable for `size` bytes!), havoc the frame, return anything. */
#include "vw_defs.h"
#include "vw_node.h"
uint32_t H_TX0;
#include "sdo.h"
uint16_t H_OBJIDX[CO_SSDO_N];
CO_ERR COObjRdBufCont(struct CO_OBJ_T *obj, struct CO_NODE_T *node, uint8_t *buffer, uint32_t size)
{
    __CPROVER_assert(obj == NULL || __CPROVER_r_ok(obj, sizeof(CO_OBJ)), "COObjRdBufCont requires: entry readable");
    __CPROVER_assert(buffer == NULL || __CPROVER_w_ok(buffer, size), "COObjRdBufCont requires: buffer writable for size bytes (transfer buffer overflow otherwise)");
    if (buffer != NULL) { __CPROVER_havoc_object(V_SDOBUF_P); }
    G_READ_N++; uint32_t st; G_TYPE_STATE = st;
    CO_ERR e; return e;
}
int16_t COIfCanSend(struct CO_IF_T *cif, CO_IF_FRM *frm)
{
    __CPROVER_assert(cif == &V_NODE.If && frm == &V_FRM, "COIfCanSend requires");
    G_TX_N++; G_TX_LAST = *frm;
    int16_t r; if (r < 0) { V_NODE.Error = CO_ERR_IF_CAN_SEND; } return r;
}
void COSdoAbort(CO_SDO *srv, uint32_t err);   /* real code, inline */
void harness(void)
{
    vw_node_init();
    vw_dict_alloc();
    for (int n = 0; n < CO_SSDO_N; n++) {
        __CPROVER_assume(!H_SDOOBJ[n] || H_OBJIDX[n] < G_DNUM);
        V_NODE.Sdo[n].Obj = H_SDOOBJ[n] ? &G_DROOT[H_OBJIDX[n]] : (CO_OBJ *)0;
    }
    __CPROVER_assume(G_N < CO_SSDO_N);
    __CPROVER_assume(ULB_PRE(&V_NODE.Sdo[G_N]));
    H_TX0 = G_TX_N;
    CO_SDO s0 = V_NODE.Sdo[G_N]; uint32_t w0 = G_WRITE_N;
#if CO_SSDO_N > 1
    CO_SDO o0 = V_NODE.Sdo[1 - G_N];
#endif
    CO_ERR e = COSdoUploadBlock(&V_NODE.Sdo[G_N]);
    __CPROVER_assert(e == CO_ERR_SDO_SILENT || e == CO_ERR_SDO_ABORT, "ensures: silent (frames sent by the function itself) or abort");
    __CPROVER_assert(G_TX_N - H_TX0 <= CO_SDO_BUF_SEG, "ensures: at most 127 frames per step");
    __CPROVER_assert((s0.Obj == NULL || s0.Blk.SegNum == 0) ==> (e == CO_ERR_SDO_ABORT && V_FRM.Data[0] == 0x80 && SRV.Obj == NULL && G_TX_N == H_TX0 && SRV.Blk.State == s0.Blk.State), "ensures: no block upload open: abort, nothing transmitted");
    __CPROVER_assert((s0.Obj != NULL && s0.Blk.SegNum != 0) ==> (e == CO_ERR_SDO_SILENT && SRV.Blk.State == BLK_UPLOAD && SRV.Obj == s0.Obj && G_TX_N - H_TX0 >= 1 && G_TX_N - H_TX0 <= SRV.Blk.SegNum), "ensures: block sent, at least one and at most blksize segments");
    __CPROVER_assert(WF_SDO_ALL(), "ensures: representation invariant WF_SDO re-established");
    __CPROVER_assert(G_WRITE_N == w0, "frame: an upload never writes the object");
#if CO_SSDO_N > 1
    __CPROVER_assert(OSRV.Obj == o0.Obj && OSRV.Buf.Cur == o0.Buf.Cur && OSRV.Buf.Num == o0.Buf.Num && OSRV.Blk.State == o0.Blk.State && OSRV.Seg.Num == o0.Seg.Num, "frame: the other server is untouched");
#endif
    if (e == CO_ERR_SDO_SILENT && G_TX_N - H_TX0 == 127) { __CPROVER_assert(0, "REACH:a"); }
    if (e == CO_ERR_SDO_SILENT && s0.Blk.State == BLK_REPEAT && s0.Blk.SegOk > 0) { __CPROVER_assert(0, "REACH:b"); }
    if (e == CO_ERR_SDO_ABORT) { __CPROVER_assert(0, "REACH:c"); }
    __CPROVER_assert(0, "REACH:post");
}
