/* PDO service (co_pdo.c, co_sync.c) in EXPLICIT form over stubs of the object layer, the timer manager and the
 * driver (each stub implements its proved/assumed contract and logs the call).  -DVW_OP=0 CORPdoWrite 1 COTPdoTx
 * 2 CORPdoRx 3 CORPdoCheck 4 COSyncUpdate+COSyncHandler.  Mapped objects: V_POBJ[4], each reporting size H_OSZ[i]
 * and current value H_VAL[i]; mapping slots Map[on] = NULL (dummy byte) or &V_POBJ[H_MI[on]]. */
#include "vw_defs.h"
#include "vw_node.h"
#include "nmt.h"
CO_OBJ V_POBJ[4]; uint32_t H_OSZ[4], H_VAL[4]; uint8_t H_MI[8]; _Bool H_MNULL[8]; uint8_t H_PN;
struct wlog { int obj; uint8_t width; uint32_t val; } W_LOG[10]; uint32_t W_N;
uint32_t N_SEND, N_TXCB, N_TDEL, N_TCRE, N_SYNCUPD, N_RXCB; CO_IF_FRM S_FRM; int16_t H_TID[2]; uint32_t C_START[2], C_CYCLE[2]; CO_TMR_FUNC C_FUNC[2]; void *C_PARA[2]; int16_t D_ID[2];
int16_t H_RECVRES; CO_IF_FRM H_FRM;
static int objidx(CO_OBJ *o) { int r = -1; for (int i = 0; i < 4; i++) { if (o == &V_POBJ[i]) { r = i; } } return r; }
uint32_t COObjGetSize(struct CO_OBJ_T *obj, CO_NODE *node, uint32_t width) { int i = objidx(obj); __CPROVER_assert(i >= 0 && node == &V_NODE, "COObjGetSize requires: a dictionary entry"); return H_OSZ[i]; }
CO_ERR COObjRdValue(struct CO_OBJ_T *obj, struct CO_NODE_T *node, void *value, uint8_t width)
{
    int i = objidx(obj); __CPROVER_assert(i >= 0 && node == &V_NODE && __CPROVER_w_ok(value, width), "COObjRdValue requires: entry, buffer writable for width");
    /* integer types deliver the value only for their exact width */
    if (width == H_OSZ[i]) { if (width == 1) { *(uint8_t *)value = (uint8_t)H_VAL[i]; } else if (width == 2) { *(uint16_t *)value = (uint16_t)H_VAL[i]; } else if (width == 4) { *(uint32_t *)value = H_VAL[i]; } return CO_ERR_NONE; }
    return CO_ERR_BAD_ARG;
}
CO_ERR COObjWrValue(struct CO_OBJ_T *obj, struct CO_NODE_T *node, void *value, uint8_t width)
{
    int i = objidx(obj); __CPROVER_assert(i >= 0 && node == &V_NODE && __CPROVER_r_ok(value, width), "COObjWrValue requires: entry, buffer readable for width");
    if (W_N < 10) { W_LOG[W_N].obj = i; W_LOG[W_N].width = width; W_LOG[W_N].val = width == 1 ? *(uint8_t *)value : width == 2 ? *(uint16_t *)value : width == 4 ? *(uint32_t *)value : 0; }
    W_N++; CO_ERR e; return e;
}
int16_t COIfCanSend(struct CO_IF_T *cif, CO_IF_FRM *frm) { __CPROVER_assert(cif == &V_NODE.If, "COIfCanSend requires"); N_SEND++; S_FRM = *frm; int16_t r; return r; }
void COPdoTransmit(CO_IF_FRM *frm) { N_TXCB++; }
int16_t COPdoReceive(CO_IF_FRM *frm) { N_RXCB++; return H_RECVRES; }
void COPdoSyncUpdate(CO_RPDO *pdo) { N_SYNCUPD++; }
void CORpdoWriteData(CO_IF_FRM *frm, uint8_t pos, uint8_t size, CO_OBJ *obj) { }
void COTpdoReadData(CO_IF_FRM *frm, uint8_t pos, uint8_t size, CO_OBJ *obj) { }
int16_t COTmrDelete(CO_TMR *tmr, int16_t actId) { __CPROVER_assert(tmr == &V_NODE.Tmr, "COTmrDelete requires"); if (N_TDEL < 2) { D_ID[N_TDEL] = actId; } N_TDEL++; int16_t r; return r; }
int16_t COTmrCreate(CO_TMR *tmr, uint32_t startTicks, uint32_t cycleTicks, CO_TMR_FUNC func, void *para)
{
    __CPROVER_assert(tmr == &V_NODE.Tmr, "COTmrCreate requires");
    int16_t r = -1; if (N_TCRE < 2) { C_START[N_TCRE] = startTicks; C_CYCLE[N_TCRE] = cycleTicks; C_FUNC[N_TCRE] = func; C_PARA[N_TCRE] = para; r = H_TID[N_TCRE]; }
    N_TCRE++; __CPROVER_assume(r >= -1); return r;
}
#if VW_OP >= 9
/* stored mapping of the PDO through stubs: count H_MAPN, entries H_MAPENT[1..8]; an entry names V_POBJ[i] iff the keys agree */
uint8_t H_MAPN; _Bool H_MAPN_OK; uint32_t H_MAPENT[9]; _Bool H_MAPENT_OK[9];
CO_ERR CODictRdByte(CO_DICT *cod, uint32_t key, uint8_t *val) { __CPROVER_assert(cod == &V_NODE.Dict && val != 0, "CODictRdByte requires"); if ((key & 0xFF00) == 0 && H_MAPN_OK) { *val = H_MAPN; return CO_ERR_NONE; } return CO_ERR_OBJ_NOT_FOUND; }
CO_ERR CODictRdLong(CO_DICT *cod, uint32_t key, uint32_t *val) { __CPROVER_assert(cod == &V_NODE.Dict && val != 0, "CODictRdLong requires"); uint8_t sub = (uint8_t)(key >> 8); if (sub >= 1 && sub <= 8 && H_MAPENT_OK[sub]) { *val = H_MAPENT[sub]; return CO_ERR_NONE; } return CO_ERR_OBJ_NOT_FOUND; }
CO_OBJ *CODictFind(CO_DICT *cod, uint32_t key) { CO_OBJ *r = 0; for (int i = 0; i < 4; i++) { if (DEV(key) != 0 && DEV(V_POBJ[i].Key) == DEV(key)) { r = &V_POBJ[i]; } } return r; }
#endif
#define P (V_NODE.TPdo[H_PN])
#define R (V_NODE.RPdo[H_PN])
static uint32_t le(CO_IF_FRM *f, uint8_t pos, uint8_t w) { uint32_t v = 0; for (int k = 0; k < 4; k++) { if (k < w) { v |= (uint32_t)f->Data[(pos + k) & 7] << (8 * k); } } return v; }
void harness(void)
{
#if VW_OP != 3
    vw_node_init();
#endif
    __CPROVER_assume(H_PN < CO_RPDO_N && WF_NMT());
    W_N = N_SEND = N_TXCB = N_TDEL = N_TCRE = N_SYNCUPD = N_RXCB = 0;
#if VW_OP == 0 || VW_OP == 2 || VW_OP == 4
    /* WF_PDO of the RPDO: at most 8 slots, each a dummy byte or a mapped object of 1, 2 or 4 bytes whose mapped length
     * matches (3 or 4 on a 32-bit object), at most 8 payload bytes in all (established by CORPdoGetMap / C14) */
    __CPROVER_assume(R.ObjNum <= 8);
    uint8_t total = 0;
    for (int on = 0; on < 8; on++) {
        R.Map[on] = H_MNULL[on] ? (CO_OBJ *)0 : &V_POBJ[H_MI[on] & 3];
        if (on < R.ObjNum) {
            if (H_MNULL[on]) { total += 1; }
            else { uint32_t z = H_OSZ[H_MI[on] & 3]; __CPROVER_assume((z == 1 || z == 2 || z == 4) && (z == 4 ? (R.Size[on] == 3 || R.Size[on] == 4) : R.Size[on] == z)); total += R.Size[on]; }
        }
    }
    __CPROVER_assume(total <= 8);
#endif
#if VW_OP == 0
    CO_IF_FRM f0 = H_FRM;
    CORPdoWrite(&R, &H_FRM);
    /* specification: consecutive little-endian fields in mapping order, dummies skip one byte per slot, nothing else is written */
    uint8_t pos = 0; uint32_t k = 0;
    for (int on = 0; on < 8; on++) {
        if (on < R.ObjNum) {
            if (H_MNULL[on]) { pos += 1; }
            else {
                int i = H_MI[on] & 3; uint32_t z = H_OSZ[i];
                uint32_t v = le(&f0, pos, (uint8_t)(z == 4 ? R.Size[on] : z));
                __CPROVER_assert(k < W_N && W_LOG[k].obj == i && W_LOG[k].width == z && W_LOG[k].val == v, "RPDO field: the mapped object receives exactly its little-endian field of the payload");
                pos += R.Size[on]; k++;
            }
        }
    }
    __CPROVER_assert(W_N == k, "RPDO: exactly the mapped objects are written, each once");
    __CPROVER_assert(N_SEND == 0, "RPDO: nothing is transmitted");
    if (W_N == 3 && pos == 8) { __CPROVER_assert(0, "REACH:a"); }
    if (W_N == 1 && pos == 5 && R.ObjNum == 3) { __CPROVER_assert(0, "REACH:b"); }
#elif VW_OP == 1
    __CPROVER_assume(P.ObjNum <= 8 && P.Node == &V_NODE && P.EvTmr >= -1 && P.InTmr >= -1);   /* WF_PDO: timer ids are -1 or valid */
    uint8_t total = 0;
    for (int on = 0; on < 8; on++) {
        P.Map[on] = &V_POBJ[H_MI[on] & 3];
        if (on < P.ObjNum) { uint32_t z = H_OSZ[H_MI[on] & 3]; __CPROVER_assume((z == 1 || z == 2 || z == 4) && (z == 4 ? (P.Size[on] == 3 || P.Size[on] == 4) : P.Size[on] == z)); total += P.Size[on]; }
    }
    __CPROVER_assume(total <= 8);
    CO_TPDO p0 = P; uint8_t al = V_NODE.Nmt.Allowed;
    COTPdoTx(&P);
    _Bool valid = p0.Identifier != CO_TPDO_COBID_OFF;
    _Bool on_ = (al & CO_PDO_ALLOWED) != 0 && valid;
    __CPROVER_assert(!on_ ==> (N_SEND == 0 && N_TCRE == 0 && N_TDEL == 0 && P.Flags == p0.Flags), "TPDO: nothing happens outside OPERATIONAL or while the COB-ID is invalid");
    __CPROVER_assert((on_ && (p0.Flags & CO_TPDO_FLG__I_)) ==> (N_SEND == 0 && (P.Flags & CO_TPDO_FLG___E) != 0 && N_TCRE == 0 && N_TDEL == 0), "TPDO inhibited: not sent, the trigger is remembered");
    if (on_ && !(p0.Flags & CO_TPDO_FLG__I_)) {
        __CPROVER_assert(N_SEND == 1 && N_TXCB == 1, "TPDO: exactly one transmission per accepted trigger");
        __CPROVER_assert(S_FRM.Identifier == p0.Identifier && S_FRM.DLC == total, "TPDO frame: identifier of the PDO, DLC == mapped byte count");
        uint8_t pos = 0;
        for (int on = 0; on < 8; on++) {
            if (on < p0.ObjNum) {
                int i = H_MI[on] & 3; uint8_t w = p0.Size[on];
                __CPROVER_assert(le(&S_FRM, pos, w) == (w == 4 ? H_VAL[i] : w == 3 ? (H_VAL[i] & 0xFFFFFF) : w == 2 ? (H_VAL[i] & 0xFFFF) : (H_VAL[i] & 0xFF)), "TPDO frame: current value of the mapped object, little-endian, in mapping order");
                pos += w;
            }
        }
        /* timers: a running event timer is restarted, the inhibit time starts with the transmission */
        __CPROVER_assert((p0.EvTmr >= 0) ==> (N_TDEL == 1 && D_ID[0] == p0.EvTmr), "TPDO: the running event timer is deleted (restarted below)");
        __CPROVER_assert(N_TCRE == (p0.Inhibit > 0 ? 1 : 0) + (p0.Event > 0 ? 1 : 0), "TPDO: one inhibit action iff inhibit time, one event action iff event time");
        __CPROVER_assert(p0.Inhibit > 0 ==> (C_START[0] == p0.Inhibit && C_CYCLE[0] == 0 && C_FUNC[0] == COTPdoTmrInhibit && C_PARA[0] == &P && P.InTmr == H_TID[0] && ((P.Flags & CO_TPDO_FLG__I_) != 0) == (H_TID[0] >= 0)), "TPDO: inhibit action = inhibit ticks, one-shot; inhibited iff it was created");
        __CPROVER_assert(p0.Event > 0 ==> (C_START[p0.Inhibit > 0 ? 1 : 0] == p0.Event && C_FUNC[p0.Inhibit > 0 ? 1 : 0] == COTPdoTmrEvent && P.EvTmr == H_TID[p0.Inhibit > 0 ? 1 : 0]), "TPDO: event action = event ticks from this transmission");
        __CPROVER_assert(p0.Event == 0 ==> P.EvTmr == -1, "TPDO: no event timer without event time");
        if (total == 8 && p0.ObjNum == 3) { __CPROVER_assert(0, "REACH:a"); }
        if (p0.Inhibit > 0 && p0.Event > 0) { __CPROVER_assert(0, "REACH:b"); }
    }
    __CPROVER_assert(W_N == 0, "TPDO: no object is written");
#elif VW_OP == 2
    /* CORPdoRx: asynchronous: applied at once; synchronous: buffered, nothing written */
    for (int n = 0; n < CO_RPDO_N; n++) { V_NODE.Sync.RPdo[n] = (H_MNULL[n]) ? (CO_RPDO *)0 : &V_NODE.RPdo[n]; }
    __CPROVER_assume((R.Flag & CO_RPDO_FLG_S_) ==> (V_NODE.Sync.RPdo[H_PN] == &R && H_FRM.Identifier == R.Identifier));
    /* CORPdoCheck hands over the FIRST enabled RPDO with that identifier: no synchronous RPDO of lower number has it */
    for (int n = 0; n < CO_RPDO_N; n++) { __CPROVER_assume((n < H_PN && V_NODE.Sync.RPdo[n] != 0) ==> V_NODE.RPdo[n].Identifier != H_FRM.Identifier); }
    CORPdoRx(&R, &H_FRM);
    __CPROVER_assert(N_RXCB == 1, "RPDO: the application callback sees every RPDO frame once");
    __CPROVER_assert((H_RECVRES != 0) ==> W_N == 0, "RPDO consumed by the application: nothing written");
    __CPROVER_assert((R.Flag & CO_RPDO_FLG_S_) ==> W_N == 0, "synchronous RPDO: nothing is written at reception");
    __CPROVER_assert(((R.Flag & CO_RPDO_FLG_S_) && H_RECVRES == 0) ==> (V_NODE.Sync.RFrm[H_PN].Identifier == H_FRM.Identifier && V_NODE.Sync.RFrm[H_PN].DLC == H_FRM.DLC && V_NODE.Sync.RFrm[H_PN].Data[0] == H_FRM.Data[0] && V_NODE.Sync.RFrm[H_PN].Data[7] == H_FRM.Data[7]), "synchronous RPDO: the frame is buffered for the next SYNC");
    if ((R.Flag & CO_RPDO_FLG_S_) && H_RECVRES == 0 && H_PN == 2) { __CPROVER_assert(0, "REACH:a"); }
    if (W_N == 2) { __CPROVER_assert(0, "REACH:b"); }
#elif VW_OP == 3
    CO_RPDO *r = CORPdoCheck(V_NODE.RPdo, &H_FRM);
    __CPROVER_assert(r != 0 ==> ((r->Flag & CO_RPDO_FLG__E) != 0 && r->Identifier == H_FRM.Identifier), "RPDO match: enabled and identifier equal");
    __CPROVER_assert((r == 0 && (R.Flag & CO_RPDO_FLG__E) != 0) ==> R.Identifier != H_FRM.Identifier, "no RPDO match: no enabled RPDO has that identifier");
    if (r == &V_NODE.RPdo[3]) { __CPROVER_assert(0, "REACH:a"); }
    if (r == 0) { __CPROVER_assert(0, "REACH:b"); }
#elif VW_OP == 4
    /* SYNC: every synchronous TPDO advances once; RPDO buffers are applied once per reception */
    for (int n = 0; n < CO_RPDO_N; n++) { V_NODE.Sync.RPdo[n] = (n == H_PN && !H_MNULL[0]) ? &V_NODE.RPdo[n] : (CO_RPDO *)0; }
    for (int n = 0; n < CO_TPDO_N; n++) { V_NODE.Sync.TPdo[n] = 0; }
    __CPROVER_assume((R.Flag & CO_RPDO_FLG__E) && R.Identifier != CO_RPDO_COBID_OFF);
    _Bool pend = V_NODE.Sync.RPdo[H_PN] != 0 && V_NODE.Sync.RFrm[H_PN].Identifier == R.Identifier;
    COSyncHandler(&V_NODE.Sync);
    __CPROVER_assert(!pend ==> (W_N == 0 && N_SYNCUPD == 0), "a SYNC that follows no reception changes nothing");
    __CPROVER_assert(pend ==> (N_SYNCUPD == 1 && V_NODE.Sync.RFrm[H_PN].Identifier != R.Identifier), "a buffered synchronous RPDO takes effect at the SYNC, exactly once");
    if (pend && W_N == 2) { __CPROVER_assert(0, "REACH:a"); }
    if (!pend) { __CPROVER_assert(0, "REACH:b"); }
#elif VW_OP == 5 || VW_OP == 6
    /* timer callbacks of a TPDO: end of the inhibit time (a remembered trigger is sent now, exactly once) / event time */
    __CPROVER_assume(P.ObjNum == 0 && P.Node == &V_NODE && P.EvTmr >= -1 && P.InTmr >= -1);
    for (int on = 0; on < 8; on++) { P.Map[on] = 0; }
    CO_TPDO p0 = P; _Bool act = (V_NODE.Nmt.Allowed & CO_PDO_ALLOWED) != 0 && p0.Identifier != CO_TPDO_COBID_OFF;
#if VW_OP == 5
    COTPdoTmrInhibit(&P);
    __CPROVER_assert(P.InTmr == -1 || N_TCRE > 0, "inhibit end: the elapsed one-shot action is forgotten");
    __CPROVER_assert((p0.Flags & CO_TPDO_FLG___E) == 0 ==> (N_SEND == 0 && (P.Flags & CO_TPDO_FLG__I_) == 0), "inhibit end without pending trigger: nothing sent, not inhibited any more");
    __CPROVER_assert(((p0.Flags & CO_TPDO_FLG___E) != 0 && act) ==> (N_SEND == 1 && (P.Flags & CO_TPDO_FLG___E) == 0), "inhibit end with pending trigger: exactly one transmission follows (no trigger lost)");
    if (N_SEND == 1 && (P.Flags & CO_TPDO_FLG__I_)) { __CPROVER_assert(0, "REACH:a"); }
    if (N_SEND == 0) { __CPROVER_assert(0, "REACH:b"); }
#else
    COTPdoTmrEvent(&P);
    __CPROVER_assert((act && (p0.Flags & CO_TPDO_FLG__I_) == 0) ==> N_SEND == 1, "event time passed: the TPDO is sent");
    __CPROVER_assert((act && (p0.Flags & CO_TPDO_FLG__I_) != 0) ==> (N_SEND == 0 && (P.Flags & CO_TPDO_FLG___E) != 0), "event time passed while inhibited: sent when the inhibit time ends");
    __CPROVER_assert(N_TDEL == 0, "the elapsed one-shot event action is not deleted again");
    if (N_SEND == 1) { __CPROVER_assert(0, "REACH:a"); }
    if (N_SEND == 0 && act) { __CPROVER_assert(0, "REACH:b"); }
#endif
#elif VW_OP == 7
    /* SYNC: a synchronous TPDO of type n (1..240) is sent on every n-th SYNC and on no other.  WF_SYNC: TSync < TNum */
    for (int n = 0; n < CO_RPDO_N; n++) { V_NODE.Sync.RPdo[n] = 0; }
    for (int n = 0; n < CO_TPDO_N; n++) { V_NODE.Sync.TPdo[n] = (n == H_PN && !H_MNULL[0]) ? &V_NODE.TPdo[n] : (CO_TPDO *)0; }
    __CPROVER_assume(P.ObjNum == 0 && P.Node == &V_NODE && P.EvTmr == -1 && P.InTmr == -1 && P.Inhibit == 0 && P.Event == 0 && P.Flags == CO_TPDO_FLG_S__);
    __CPROVER_assume((V_NODE.Nmt.Allowed & CO_PDO_ALLOWED) != 0 && P.Identifier != CO_TPDO_COBID_OFF);
    uint8_t tn = V_NODE.Sync.TNum[H_PN], ts = V_NODE.Sync.TSync[H_PN];
    __CPROVER_assume(tn >= 1 && tn <= 240 && ts < tn);
    H_FRM.Identifier = V_NODE.Sync.CobId & 0x1FFFFFFF;
    int16_t u = COSyncUpdate(&V_NODE.Sync, &H_FRM);
    COSyncHandler(&V_NODE.Sync);
    _Bool sy = V_NODE.Sync.TPdo[H_PN] != 0;
    __CPROVER_assert(u == 0, "the identifier of 1005h is recognised as SYNC");
    __CPROVER_assert(!sy ==> N_SEND == 0, "a TPDO that is not synchronous is not sent on SYNC");
    __CPROVER_assert(sy ==> (N_SEND == ((uint8_t)(ts + 1) == tn ? 1 : 0)), "type n: sent exactly on the n-th SYNC");
    __CPROVER_assert(sy ==> (V_NODE.Sync.TSync[H_PN] == ((uint8_t)(ts + 1) == tn ? 0 : ts + 1) && V_NODE.Sync.TSync[H_PN] < tn), "every SYNC advances the schedule exactly once (WF_SYNC preserved)");
    if (N_SEND == 1) { __CPROVER_assert(0, "REACH:a"); }
    if (sy && N_SEND == 0) { __CPROVER_assert(0, "REACH:b"); }
#elif VW_OP == 8
    /* near-miss identifiers are not SYNC; nothing advances */
    uint8_t ts = V_NODE.Sync.TSync[H_PN];
    for (int n = 0; n < CO_TPDO_N; n++) { V_NODE.Sync.TPdo[n] = (n == H_PN && !H_MNULL[0]) ? &V_NODE.TPdo[n] : (CO_TPDO *)0; }
    int16_t u = COSyncUpdate(&V_NODE.Sync, &H_FRM);
    __CPROVER_assert((u == 0) == (H_FRM.Identifier == (V_NODE.Sync.CobId & 0x1FFFFFFF)), "a frame is SYNC exactly when its identifier equals the CAN-ID of 1005h");
    __CPROVER_assert(u != 0 ==> V_NODE.Sync.TSync[H_PN] == ts, "no SYNC: no schedule advances");
    if (u == 0) { __CPROVER_assert(0, "REACH:a"); }
    if (u != 0) { __CPROVER_assert(0, "REACH:b"); }
#elif VW_OP == 9
    /* CORPdoGetMap: the activated RPDO mapping is exactly the stored one, never more than 8 slots / 8 bytes, every target exists */
    for (int on = 0; on < 8; on++) { R.Map[on] = 0; R.Size[on] = 0; }
    R.ObjNum = 0; R.Node = &V_NODE;
#ifdef VW_MAPN_MAX
    __CPROVER_assume(!H_MAPN_OK || H_MAPN <= VW_MAPN_MAX);   /* BOUNDED: number of stored mapping entries */
#endif
    /* stored mapping: at most 8 entries (COTPdoNumWrite); the LENGTH byte of an entry is whatever a client wrote - COTPdoMapWrite
     * does not look at it - so entries of 0..7 bits (0 bytes) are part of the input space */
    __CPROVER_assume(!H_MAPN_OK || H_MAPN <= 8);
    CO_ERR e = CORPdoGetMap(V_NODE.RPdo, H_PN);
    uint32_t bytes = 0, slots = 0; _Bool allok = H_MAPN_OK;
    for (int i = 1; i <= 8; i++) { if (H_MAPN_OK && i <= H_MAPN) { if (!H_MAPENT_OK[i]) { allok = 0; } uint8_t b = (uint8_t)H_MAPENT[i] >> 3; uint16_t ix = (uint16_t)(H_MAPENT[i] >> 16); bytes += b;
        slots += (ix >= 2 && ix <= 7 && b > 1) ? b : 1; } }
    __CPROVER_assert(e == CO_ERR_NONE ==> (R.ObjNum <= 8 && bytes <= 8 && R.ObjNum == slots), "activated RPDO mapping: at most 8 slots and 8 bytes, one slot per dummy byte / mapped object");
    __CPROVER_assert((e == CO_ERR_NONE && G_K < R.ObjNum && R.Map[G_K & 7] != 0) ==> objidx(R.Map[G_K & 7]) >= 0, "activated RPDO mapping: every target is an existing object");
    /* slot-accurate: walking the stored entries, a dummy of b bytes owns b empty slots, an object entry one slot with its object and its mapped length */
    { uint32_t s = 0; int ei = 0; _Bool dm = 0;
      for (int i = 1; i <= 8; i++) { if (H_MAPN_OK && i <= H_MAPN) { uint8_t b = (uint8_t)H_MAPENT[i] >> 3; uint16_t ix = (uint16_t)(H_MAPENT[i] >> 16);
          if (ix >= 2 && ix <= 7) { if (G_K >= s && G_K < s + b) { dm = 1; } s += b; } else { if (G_K == s) { ei = i; } s += 1; } } }
      if (e == CO_ERR_NONE && G_K < R.ObjNum) {
          __CPROVER_assert(dm == (R.Map[G_K & 7] == 0), "activated RPDO mapping: slot k is empty exactly if it belongs to a dummy entry");
          if (ei > 0) { __CPROVER_assert(R.Map[G_K & 7] != 0 && DEV(R.Map[G_K & 7]->Key) == DEV(H_MAPENT[ei & 15]) && R.Size[G_K & 7] == ((uint8_t)H_MAPENT[ei & 15] >> 3), "activated RPDO mapping: the slot of an object entry holds that object and its mapped length"); }
      } }
    __CPROVER_assert((!allok || bytes > 8) ==> e != CO_ERR_NONE, "a stored mapping that cannot be activated is refused");
    if (e == CO_ERR_NONE && R.ObjNum == 8 && H_MAPN == 2) { __CPROVER_assert(0, "REACH:a"); }
    if (e != CO_ERR_NONE) { __CPROVER_assert(0, "REACH:b"); }
#elif VW_OP == 10
    for (int on = 0; on < 8; on++) { P.Map[on] = 0; P.Size[on] = 0; }
    P.ObjNum = 0; P.Node = &V_NODE;
    for (int n = 0; n < CO_TPDO_N * 8; n++) { V_NODE.TMap[n].Obj = 0; }
    __CPROVER_assume(!H_MAPN_OK || H_MAPN <= 8);
    CO_ERR e = COTPdoGetMap(V_NODE.TPdo, H_PN);
    uint32_t bytes = 0; _Bool allok = H_MAPN_OK;
    for (int i = 1; i <= 8; i++) { if (H_MAPN_OK && i <= H_MAPN) { if (!H_MAPENT_OK[i]) { allok = 0; } bytes += (uint8_t)H_MAPENT[i] >> 3; } }
    __CPROVER_assert(e == CO_ERR_NONE ==> (P.ObjNum == H_MAPN && P.ObjNum <= 8 && bytes <= 8), "activated TPDO mapping: the stored count, at most 8 objects and 8 bytes");
    __CPROVER_assert((e == CO_ERR_NONE && G_K < P.ObjNum) ==> (objidx(P.Map[G_K & 7]) >= 0 && DEV(P.Map[G_K & 7]->Key) == DEV(H_MAPENT[(G_K & 7) + 1]) && P.Size[G_K & 7] == ((uint8_t)H_MAPENT[(G_K & 7) + 1] >> 3)), "activated TPDO mapping: entry k is the object and length stored in sub-index k+1");
    __CPROVER_assert((!allok || bytes > 8) ==> e != CO_ERR_NONE, "a stored mapping that cannot be activated is refused");
    if (e == CO_ERR_NONE && P.ObjNum == 3) { __CPROVER_assert(0, "REACH:a"); }
    if (e != CO_ERR_NONE) { __CPROVER_assert(0, "REACH:b"); }
#elif VW_OP == 11
    /* SYNC producer callback: zero-length frame on the CAN-ID of 1005h, only in states that allow SYNC */
    COSyncProdSend(&V_NODE.Sync);
    _Bool on = (V_NODE.Nmt.Allowed & CO_SYNC_ALLOWED) != 0;
    __CPROVER_assert(N_SEND == (on ? 1 : 0), "SYNC is produced only in PRE-OPERATIONAL and OPERATIONAL");
    __CPROVER_assert(on ==> (S_FRM.Identifier == (V_NODE.Sync.CobId & 0x1FFFFFFF) && S_FRM.DLC == 0), "SYNC frame: identifier of 1005h, no data");
    if (on) { __CPROVER_assert(0, "REACH:a"); }
    if (!on) { __CPROVER_assert(0, "REACH:b"); }
#endif
    __CPROVER_assert(0, "REACH:post");
}
