/* SDO server DATA PATH (co_ssdo.c) - properties C02 / C03, EXPLICIT form, per step, loop-free up to the 7-byte
 * frame loops.  The object layer is an abstract byte-stream device: its stubs log kind / pointer / length of every
 * access and one PROBE byte at the universally quantified ghost index G_K (write side: the byte handed over; read
 * side: the byte delivered, a fresh nondet value).  One step runs from an arbitrary state of the transfer mode it
 * belongs to (the mode invariants are the ensures of the previous step in sdo.h) with any frame content and asserts
 *   - exactly the bytes of THIS frame are handed to the object layer / taken from it, in order, with the right length,
 *   - at the right place of the transfer buffer, every other buffered byte unchanged (ghost index G_B),
 *   - "confirmed => written": a positive response is only given if the object layer accepted the data.
 * By induction over the steps of a conforming dialogue (object layer = stream device, C06 domain / integer
 * contracts) a confirmed download leaves exactly the client's bytes in the object and an upload delivers exactly
 * the object's bytes.  -DVW_OP= 0 DL-exp 1 DL-seg-init 2 DL-seg 3 DL-blk-init 4 DL-blk 5 DL-blk-end 6 UL-exp
 * 7 UL-seg-init 8 UL-seg. */
#include "vw_defs.h"
#include "vw_node.h"
#define S (V_NODE.Sdo[0])
CO_OBJ V_OBJ0; uint32_t H_OSZ; CO_ERR H_WRES, H_RRES; uint8_t H_RBYTE; uint32_t G_B, H_FILL; _Bool H_OPEN;
uint32_t W_N, W_LEN, R_N, R_LEN, A_WIDTH, N_RESET; int W_KIND, R_KIND; uint8_t *W_PTR, *R_PTR, W_PROBE; _Bool G_REWOUND;   /* the object position was set to 0 in this step */
static CO_ERR wr(int kind, CO_OBJ *obj, CO_NODE *node, uint8_t *b, uint32_t n)
{
    __CPROVER_assert(obj == &V_OBJ0 && node == &V_NODE && b != 0 && __CPROVER_r_ok(b, n), "object write requires: the open entry, a buffer readable for the length");
    if (kind == 1) { G_REWOUND = 1; }
    if (kind == 0) { __CPROVER_assert(G_REWOUND, "the object position is rewound before the typed access of an expedited transfer (a domain or string may be 1..4 bytes long)"); }
    W_N++; W_KIND = kind; W_PTR = b; W_LEN = n; if (G_K < n) { W_PROBE = b[G_K]; }
    return H_WRES;
}
static CO_ERR rd(int kind, CO_OBJ *obj, CO_NODE *node, uint8_t *b, uint32_t n)
{
    __CPROVER_assert(obj == &V_OBJ0 && node == &V_NODE && b != 0 && __CPROVER_w_ok(b, n), "object read requires: the open entry, a buffer writable for the length");
    if (kind == 1) { G_REWOUND = 1; }
    if (kind == 0) { __CPROVER_assert(G_REWOUND, "the object position is rewound before the typed access of an expedited transfer (a domain or string may be 1..4 bytes long)"); }
    R_N++; R_KIND = kind; R_PTR = b; R_LEN = n; if (G_K < n) { b[G_K] = H_RBYTE; }
    return H_RRES;
}
CO_ERR COObjReset(struct CO_OBJ_T *o, struct CO_NODE_T *n, uint32_t para) { __CPROVER_assert(o == &V_OBJ0 && n == &V_NODE, "COObjReset requires: the open entry"); N_RESET++; if (para == 0) { G_REWOUND = 1; } return CO_ERR_NONE; }
CO_ERR COObjWrValue(struct CO_OBJ_T *o, struct CO_NODE_T *n, void *v, uint8_t w) { return wr(0, o, n, (uint8_t *)v, w); }
CO_ERR COObjWrBufStart(struct CO_OBJ_T *o, struct CO_NODE_T *n, uint8_t *b, uint32_t s) { return wr(1, o, n, b, s); }
CO_ERR COObjWrBufCont(struct CO_OBJ_T *o, struct CO_NODE_T *n, uint8_t *b, uint32_t s) { return wr(2, o, n, b, s); }
CO_ERR COObjRdValue(struct CO_OBJ_T *o, struct CO_NODE_T *n, void *v, uint8_t w) { return rd(0, o, n, (uint8_t *)v, w); }
CO_ERR COObjRdBufStart(struct CO_OBJ_T *o, struct CO_NODE_T *n, uint8_t *b, uint32_t s) { return rd(1, o, n, b, s); }
CO_ERR COObjRdBufCont(struct CO_OBJ_T *o, struct CO_NODE_T *n, uint8_t *b, uint32_t s) { return rd(2, o, n, b, s); }
/* size negotiation of the type layer (C06): 0 = no such object / width refused, else the size to transfer */
uint32_t COObjGetSize(struct CO_OBJ_T *o, struct CO_NODE_T *n, uint32_t width) { __CPROVER_assert(o == &V_OBJ0 && n == &V_NODE, "COObjGetSize requires"); A_WIDTH = width; return H_OSZ; }
int16_t COIfCanSend(struct CO_IF_T *cif, CO_IF_FRM *frm) { __CPROVER_assert(0, "a download / segmented upload step transmits nothing itself"); return 0; }
CO_OBJ *CODictFind(CO_DICT *cod, uint32_t key) { return 0; }
#define FD(i) (V_FRM.Data[i])
#define OFD(i) (f0.Data[i])
#define FILL ((uint32_t)(S.Buf.Cur - S.Buf.Start))
#define ABORTED (e == CO_ERR_SDO_ABORT && FD(0) == 0x80 && S.Obj == 0)
void harness(void)
{
    vw_node_init();
    S.Frm = &V_FRM; S.Obj = H_OPEN ? &V_OBJ0 : (CO_OBJ *)0;
    __CPROVER_assume(H_FILL <= CO_SDO_BUF_BYTE && G_B < CO_SDO_BUF_BYTE);
    S.Buf.Cur = S.Buf.Start + H_FILL;
    CO_IF_FRM f0 = V_FRM; CO_SDO s0 = S; uint8_t ob = V_SDOBUF[G_B], ok = V_SDOBUF[G_K < CO_SDO_BUF_BYTE ? G_K : 0];
    W_N = R_N = N_RESET = 0; G_REWOUND = 0; uint8_t cmd = OFD(0);
#if VW_OP == 0
    /* expedited download */
    __CPROVER_assume(H_OPEN && S.Blk.State == BLK_IDLE && (cmd & 0xF2) == 0x22);
    CO_ERR e = COSdoDownloadExpedited(&S);
    uint32_t width = (cmd & 1) ? 4u - ((cmd >> 2) & 3u) : 0u;
    __CPROVER_assert(A_WIDTH == width, "the announced length (s = 1: 4 - n, else none) is what the type is asked for");
    _Bool acc = H_OSZ >= 1 && H_OSZ <= 4 && (width == 0 || width == H_OSZ);
    if (acc) {
        __CPROVER_assert(W_N == 1 && W_KIND == 0 && W_LEN == H_OSZ && (G_K >= H_OSZ || W_PROBE == OFD(4 + (G_K & 3))), "expedited download: exactly one typed write of the object's size with the bytes 4.. of the request, in order");
        __CPROVER_assert(e == CO_ERR_NONE ? (H_WRES == CO_ERR_NONE && FD(0) == 0x60 && FD(1) == OFD(1) && FD(2) == OFD(2) && FD(3) == OFD(3) && S.Obj == 0) : (H_WRES != CO_ERR_NONE && ABORTED), "confirmed (60h, multiplexer echoed) exactly if the object accepted the value, else abort");
        __CPROVER_assert(0, "REACH:a");
    } else {
        __CPROVER_assert(W_N == 0 && ABORTED, "length mismatch / no such size: refused, nothing is written");
        __CPROVER_assert(0, "REACH:b");
    }
#elif VW_OP == 1 || VW_OP == 3
    /* initiate segmented / block download */
    __CPROVER_assume(H_OPEN && S.Blk.State == BLK_IDLE);
#if VW_OP == 1
    CO_ERR e = COSdoInitDownloadSegmented(&S); _Bool sbit = (cmd & 1) != 0, strict = 1;
#else
    CO_ERR e = COSdoInitDownloadBlock(&S); _Bool sbit = (cmd & 2) != 0, strict = 0;
#endif
    uint32_t width = sbit ? ((uint32_t)OFD(4) | ((uint32_t)OFD(5) << 8) | ((uint32_t)OFD(6) << 16) | ((uint32_t)OFD(7) << 24)) : 0u;
    __CPROVER_assert(A_WIDTH == width, "the announced size (s = 1) is what the type is asked for");
    uint32_t size = H_OSZ == 0 ? 0 : width == 0 ? H_OSZ : width == H_OSZ ? width : (width < H_OSZ && !strict) ? width : 0;
    if (size == 0) { __CPROVER_assert(W_N == 0 && ABORTED, "size refused: abort, the object is not touched"); __CPROVER_assert(0, "REACH:b"); }
    else {
        __CPROVER_assert(G_REWOUND && (W_N == 0 || (W_N == 1 && W_KIND == 1 && W_LEN == 0)), "the object's write position is rewound at EVERY transfer start (start access of 0 bytes, or a position reset for sizes up to 4 bytes); no data is written yet");
        __CPROVER_assert(e == CO_ERR_NONE ? ((size <= 4 || H_WRES == CO_ERR_NONE) && FILL == 0 && S.Buf.Num == 0 && S.Obj == &V_OBJ0) : ABORTED, "accepted only if the rewind succeeded; the transfer buffer is empty");
#if VW_OP == 1
        __CPROVER_assert(e != CO_ERR_NONE || (FD(0) == 0x60 && S.Seg.Size == size && S.Seg.Num == 0 && S.Seg.TBit == 0), "60h; expected size latched, toggle 0");
#else
        __CPROVER_assert(e != CO_ERR_NONE || (FD(0) == 0xA0 && FD(4) == 127 && S.Blk.State == BLK_DOWNLOAD && S.Blk.SegCnt == 0 && S.Blk.Len == size), "A0h blksize 127; expected size latched, sequence 0");
#endif
        __CPROVER_assert(0, "REACH:a");
    }
#elif VW_OP == 2
    /* download segment; mode invariant of a running segmented download (ensures of the previous step): buffer empty */
    __CPROVER_assume(S.Blk.State == BLK_IDLE && (cmd & 0xE0) == 0 && (!H_OPEN || (H_FILL == 0 && S.Buf.Num == 0 && S.Seg.TBit <= 1)));
    CO_ERR e = COSdoDownloadSegmented(&S);
    if (!H_OPEN) { __CPROVER_assert(W_N == 0 && ABORTED, "no transfer open: abort, nothing written"); }
    else if (((cmd >> 4) & 1) != s0.Seg.TBit) { __CPROVER_assert(W_N == 0 && ABORTED, "toggle error: abort, nothing written"); }
    else {
        uint32_t n = (cmd >> 1) & 7, rem = s0.Seg.Size - s0.Seg.Num;
        __CPROVER_assert(W_N == 1 && W_KIND == 2 && W_PTR == S.Buf.Start, "download segment: exactly one continued write from the start of the transfer buffer");
        /* conforming client: 7 - n data bytes (n = 0 with fewer than 7 bytes outstanding is a client error: unconstrained) */
        if (n != 0 || rem >= 7) { __CPROVER_assert(W_LEN == 7 - n, "download segment: exactly the 7 - n data bytes of the segment are written"); }
        __CPROVER_assert(W_LEN <= 7 && (G_K >= W_LEN || W_PROBE == OFD(1 + (G_K & 7))), "download segment: the bytes written are the bytes 1.. of the segment, in order");
        __CPROVER_assert(e == CO_ERR_NONE ==> (H_WRES == CO_ERR_NONE && FD(0) == (0x20 | (s0.Seg.TBit << 4)) && S.Seg.TBit == (s0.Seg.TBit ^ 1)), "confirmed (20h | t) only if the object accepted the bytes");
        __CPROVER_assert(e != CO_ERR_NONE ==> ABORTED, "otherwise the transfer is aborted");
        __CPROVER_assert((e == CO_ERR_NONE && !(cmd & 1)) ==> (S.Obj == &V_OBJ0 && S.Seg.Num == s0.Seg.Num + W_LEN), "not the last segment: transfer stays open, received count advances by the bytes written");
        __CPROVER_assert((e == CO_ERR_NONE && (cmd & 1)) ==> S.Obj == 0, "last segment: transfer closed");
        __CPROVER_assert(FILL == 0 && S.Buf.Num == 0, "the transfer buffer is empty again (mode invariant for the next segment)");
        if (e == CO_ERR_NONE && (cmd & 1)) { __CPROVER_assert(0, "REACH:a"); }
        if (e == CO_ERR_NONE && !(cmd & 1)) { __CPROVER_assert(0, "REACH:b"); }
    }
#elif VW_OP == 4
    /* block download segment; mode invariant WF_SDO (BLK_DOWNLOAD): fill == 7 * segments buffered == Buf.Num, fewer than 127 */
    uint8_t sc = S.Blk.SegCnt & 0x7F;
    __CPROVER_assume(H_OPEN && S.Blk.State == BLK_DOWNLOAD && sc < 127 && H_FILL == 7u * sc && S.Buf.Num == H_FILL);
    CO_ERR e = COSdoDownloadBlock(&S);
    uint8_t seq = cmd & 0x7F; _Bool last = (cmd & 0x80) != 0, inseq = seq == (uint8_t)(s0.Blk.SegCnt + 1), endblk = last || seq == 127;
    if (inseq && s0.Blk.Len > 0) {
        __CPROVER_assert(V_SDOBUF[G_B] == ((G_B >= H_FILL && G_B < H_FILL + 7) ? OFD(1 + ((G_B - H_FILL) & 7)) : ob), "block segment in sequence: its 7 bytes are appended to the buffered bytes, no other buffered byte changes");
        if (endblk && !last) {
            __CPROVER_assert(W_N == 1 && W_KIND == 2 && W_PTR == S.Buf.Start && W_LEN == H_FILL + 7, "end of a block: everything buffered is written, once, in order");
            __CPROVER_assert(G_K >= W_LEN || W_PROBE == ((G_K >= H_FILL) ? OFD(1 + ((G_K - H_FILL) & 7)) : ok), "end of a block: the bytes written are the buffered bytes followed by this segment");
            __CPROVER_assert(e == CO_ERR_NONE ? (H_WRES == CO_ERR_NONE && FD(0) == 0xA2 && FD(1) == seq && FILL == 0 && S.Buf.Num == 0) : ABORTED, "the block is acknowledged (A2h ackseq) only if the object accepted its bytes, else the transfer is aborted");
            __CPROVER_assert(0, "REACH:a");
        } else {
            __CPROVER_assert(W_N == 0 && FILL == H_FILL + 7 && S.Buf.Num == FILL, "inside a block / last segment of the transfer: buffered, not yet written");
            __CPROVER_assert(last ? (e == CO_ERR_NONE && FD(0) == 0xA2 && FD(1) == seq && S.Blk.State == BLK_DNWAIT) : (e == CO_ERR_SDO_SILENT && S.Blk.SegCnt == seq), "last segment acknowledged, others silent");
            __CPROVER_assert(0, "REACH:b");
        }
    } else if (inseq) {
        __CPROVER_assert(W_N == 0 && ABORTED, "more data than announced: abort, nothing written");
    } else {
        __CPROVER_assert(V_SDOBUF[G_B] == ob, "segment out of sequence: nothing is buffered");
        if (endblk && s0.Buf.Num > 0) {
            __CPROVER_assert(W_N == 1 && W_KIND == 2 && W_PTR == S.Buf.Start && W_LEN == H_FILL && (G_K >= W_LEN || W_PROBE == ok), "end of a block with lost segments: the good prefix is written, once");
            __CPROVER_assert(e == CO_ERR_NONE ? (H_WRES == CO_ERR_NONE && FD(0) == 0xA2 && FD(1) == sc && FILL == 0 && S.Buf.Num == 0) : ABORTED, "the good prefix is acknowledged only if the object accepted it");
        } else {
            __CPROVER_assert(W_N == 0, "nothing to write");
        }
    }
#elif VW_OP == 5
    /* end block download; mode invariant (BLK_DNWAIT): Buf.Num == fill */
    __CPROVER_assume(H_OPEN && S.Blk.State == BLK_DNWAIT && S.Buf.Num == H_FILL && (cmd & 0xE3) == 0xC1);
    CO_ERR e = COSdoEndDownloadBlock(&S);
    uint32_t n = (cmd >> 2) & 7;
    if (n > H_FILL) { __CPROVER_assert(W_N == 0 && ABORTED, "more unused bytes than buffered: abort, nothing written"); __CPROVER_assert(0, "REACH:b"); }
    else {
        __CPROVER_assert(W_N == 1 && W_KIND == 2 && W_PTR == S.Buf.Start && W_LEN == H_FILL - n && (G_K >= W_LEN || W_PROBE == ok), "end of transfer: the buffered bytes minus the n unused ones are written, once, in order");
        __CPROVER_assert(e == CO_ERR_NONE ? (H_WRES == CO_ERR_NONE && FD(0) == 0xA1) : ABORTED, "the download is confirmed (A1h) only if the object accepted the last bytes, else aborted");
        __CPROVER_assert(S.Obj == 0 && S.Blk.State == BLK_IDLE && FILL == 0 && S.Buf.Num == 0, "the transfer is closed, buffer empty");
        __CPROVER_assert(0, "REACH:a");
    }
#elif VW_OP == 6
    /* expedited upload (objects of 1..4 bytes) */
    __CPROVER_assume(H_OPEN && S.Blk.State == BLK_IDLE && H_OSZ <= 4);
    CO_ERR e = COSdoUploadExpedited(&S);
    if (H_OSZ == 0) { __CPROVER_assert(R_N == 0 && ABORTED, "no size: abort"); }
    else {
        __CPROVER_assert(R_N == 1 && R_KIND == 0 && R_LEN == H_OSZ && W_N == 0, "expedited upload: exactly one typed read of the object's size, the object is not written");
        if (H_RRES == CO_ERR_NONE) {
            __CPROVER_assert(e == CO_ERR_NONE && FD(0) == (0x43 | ((4 - H_OSZ) << 2)) && FD(1) == OFD(1) && FD(2) == OFD(2) && FD(3) == OFD(3) && S.Obj == 0, "43h | n<<2 with n = 4 - size, multiplexer echoed");
            __CPROVER_assert((G_K >= H_OSZ || FD(4 + (G_K & 3)) == H_RBYTE) && (H_OSZ > 1 || FD(5) == 0) && (H_OSZ > 2 || FD(6) == 0) && (H_OSZ > 3 || FD(7) == 0), "the response carries exactly the object's bytes in order, unused bytes 0");
            __CPROVER_assert(0, "REACH:a");
        } else { __CPROVER_assert(ABORTED, "read refused: abort"); __CPROVER_assert(0, "REACH:b"); }
    }
#elif VW_OP == 7
    __CPROVER_assume(H_OPEN && S.Blk.State == BLK_IDLE);
    CO_ERR e = COSdoInitUploadSegmented(&S, H_OSZ);
    __CPROVER_assert(R_N == 1 && R_KIND == 1 && R_LEN == 0 && W_N == 0, "initiate segmented upload: the object's read position is rewound, nothing is read yet");
    __CPROVER_assert(e == CO_ERR_NONE ? (H_RRES == CO_ERR_NONE && FD(0) == 0x41 && FD(4) == (uint8_t)H_OSZ && FD(5) == (uint8_t)(H_OSZ >> 8) && FD(6) == (uint8_t)(H_OSZ >> 16) && FD(7) == (uint8_t)(H_OSZ >> 24) && S.Seg.Size == H_OSZ && S.Seg.Num == 0 && S.Seg.TBit == 0) : ABORTED, "41h with the object size; size latched, toggle 0");
    if (e == CO_ERR_NONE) { __CPROVER_assert(0, "REACH:a"); } else { __CPROVER_assert(0, "REACH:b"); }
#elif VW_OP == 8
    __CPROVER_assume(S.Blk.State == BLK_IDLE && (cmd & 0xEF) == 0x60 && (!H_OPEN || (H_FILL <= 7 && S.Seg.TBit <= 1)));
    CO_ERR e = COSdoUploadSegmented(&S);
    if (!H_OPEN) { __CPROVER_assert(R_N == 0 && ABORTED, "no transfer open: abort"); }
    else if (((cmd >> 4) & 1) != s0.Seg.TBit) { __CPROVER_assert(R_N == 0 && ABORTED, "toggle error: abort, nothing read"); }
    else {
        uint32_t rem = s0.Seg.Size - s0.Seg.Num, w = rem > 7 ? 7 : rem;
        __CPROVER_assert(R_N == 1 && R_KIND == 2 && R_PTR == S.Buf.Start && R_LEN == w && W_N == 0, "upload segment: exactly one continued read of min(7, outstanding) bytes; the object is not written");
        if (H_RRES == CO_ERR_NONE) {
            __CPROVER_assert(e == CO_ERR_NONE && FD(0) == ((s0.Seg.TBit << 4) | ((7 - w) << 1) | (rem <= 7 ? 1 : 0)), "toggle echoed, n = 7 - bytes, c marks exactly the last segment");
            __CPROVER_assert(G_K >= w || FD(1 + (G_K & 7)) == H_RBYTE, "the segment carries exactly the bytes the object delivered, in order");
            __CPROVER_assert(rem <= 7 ? S.Obj == 0 : (S.Obj == &V_OBJ0 && S.Seg.Num == s0.Seg.Num + 7 && S.Seg.TBit == (s0.Seg.TBit ^ 1)), "position and toggle advance; the last segment closes the transfer");
            if (rem <= 7) { __CPROVER_assert(0, "REACH:a"); } else { __CPROVER_assert(0, "REACH:b"); }
        } else { __CPROVER_assert(ABORTED, "read refused: abort"); }
    }
#endif
    __CPROVER_assert(0, "REACH:post");
}
