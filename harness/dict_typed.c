/* CODictRd/Wr{Byte,Word,Long}: explicit form over a concrete-layout dictionary (D-lay, <= VW_DN
 * entries, all keys/flags/values/types symbolic); CODictFind, COObjGetSize, COObjRd/WrValue and
 * the integer type functions are the real code, analysed inline.  -DVW_W=1|2|4 */
#define VW_T_MAX VW_T_I32
#include "vw_defs.h"
#include "vw_dict.h"
#if VW_W == 1
#define VW_T uint8_t
#define RD CODictRdByte
#define WR CODictWrByte
#define MYT VW_T_I8
#elif VW_W == 2
#define VW_T uint16_t
#define RD CODictRdWord
#define WR CODictWrWord
#define MYT VW_T_I16
#else
#define VW_T uint32_t
#define RD CODictRdLong
#define WR CODictWrLong
#define MYT VW_T_I32
#endif
uint32_t H_KEY; VW_T H_VAL; _Bool H_WRITE;
void COTPdoTrigObj(CO_TPDO *tpdo, struct CO_OBJ_T *obj) { G_TRIG_N++; }   /* not part of C06: counted only */

static VW_T stored(int i)
{
    return CO_IS_DIRECT(V_DICT[i].Key) ? (VW_T)(size_t)V_DICT[i].Data : (VW_T)VW_CELL_VAL(i);
}
void harness(void)
{
    vw_dict_init();
    int i = vw_dict_lookup(H_KEY);
    /* entry usable with this width: integer type of exactly VW_W bytes with storage */
    _Bool exact = i >= 0 && H_TYPE[i] == MYT && (CO_IS_DIRECT(V_DICT[i].Key) || H_REF[i]);
    VW_T nid = (i >= 0 && CO_IS_NODEID(V_DICT[i].Key)) ? (VW_T)V_NODE.NodeId : (VW_T)0;
    CO_OBJ d0 = V_DICT[(G_K <= VW_DN) ? G_K : 0];
    if (!H_WRITE) {
        VW_T out = 0, s0 = exact ? stored(i) : 0;
        CO_ERR e = RD(&V_NODE.Dict, H_KEY, &out);
        __CPROVER_assert((e == CO_ERR_NONE) == exact, "typed read succeeds exactly on an existing entry of exactly that width");
        __CPROVER_assert((e == CO_ERR_OBJ_NOT_FOUND) == (i < 0), "typed read: NOT_FOUND exactly when no entry has that index/sub");
        __CPROVER_assert(exact ==> out == (VW_T)(s0 + nid), "typed read returns stored value (+ node id for node-id relative entries)");
        __CPROVER_assert(!exact ==> out == 0, "a failed typed read leaves the out-parameter untouched");
        __CPROVER_assert(V_DICT[(G_K <= VW_DN) ? G_K : 0].Key == d0.Key && V_DICT[(G_K <= VW_DN) ? G_K : 0].Data == d0.Data, "frame: a read changes no entry");
        if (e == CO_ERR_NONE) { __CPROVER_assert(0, "REACH:rd_ok"); }
        if (e == CO_ERR_OBJ_SIZE) { __CPROVER_assert(0, "REACH:rd_size"); }
    } else {
        CO_ERR e = WR(&V_NODE.Dict, H_KEY, H_VAL);
        __CPROVER_assert((e == CO_ERR_NONE) == exact, "typed write succeeds exactly on an existing entry of exactly that width");
        __CPROVER_assert((e == CO_ERR_OBJ_NOT_FOUND) == (i < 0), "typed write: NOT_FOUND exactly when no entry has that index/sub");
        __CPROVER_assert(exact ==> stored(i) == (VW_T)(H_VAL - nid), "typed write stores value (- node id for node-id relative entries)");
        /* round trip: reading back gives the written value */
        VW_T back = 0;
        CO_ERR e2 = RD(&V_NODE.Dict, H_KEY, &back);
        __CPROVER_assert(exact ==> (e2 == CO_ERR_NONE && back == H_VAL), "write then read round-trips every value");
        /* every other entry, and key/type of the written one, unchanged */
        int gk = (G_K <= VW_DN) ? (int)G_K : 0;
        __CPROVER_assert(V_DICT[gk].Key == d0.Key && V_DICT[gk].Type == d0.Type && ((gk != i || !exact) ==> V_DICT[gk].Data == d0.Data), "frame: only the addressed entry's value changes");
        if (e == CO_ERR_NONE) { __CPROVER_assert(0, "REACH:wr_ok"); }
        if (e == CO_ERR_NONE && nid != 0) { __CPROVER_assert(0, "REACH:wr_nodeid"); }
    }
    __CPROVER_assert(0, "REACH:post");
}
