/* hardware interface wrappers (co_if.c, co_if_can.c, co_if_timer.c, co_if_nvm.c) - properties C01, C09 (frames reach the
 * driver unchanged), C17 (NVM arguments/results passed through); EXPLICIT form: the driver tables are logging
 * functions reached through the real function pointers.  One harness checks every wrapper. */
#include "vw_defs.h"
#include "vw_node.h"
uint32_t G_SEQ, O_CINIT, O_TINIT, O_NINIT, N_CALL; CO_IF_FRM *A_FRM; uint32_t A_U32, A_START, A_SIZE, H_U32; uint8_t *A_BUF; int16_t H_I16; uint8_t H_U8; int A_WHICH;
static void c_init(void) { G_SEQ++; O_CINIT = G_SEQ; }
static void c_enable(uint32_t b) { N_CALL++; A_WHICH = 1; A_U32 = b; }
static int16_t c_read(CO_IF_FRM *f) { N_CALL++; A_WHICH = 2; A_FRM = f; return H_I16; }
static int16_t c_send(CO_IF_FRM *f) { N_CALL++; A_WHICH = 3; A_FRM = f; return H_I16; }
static void c_reset(void) { N_CALL++; A_WHICH = 4; }
static void c_close(void) { N_CALL++; A_WHICH = 5; }
static void t_init(uint32_t f) { G_SEQ++; O_TINIT = G_SEQ; A_U32 = f; }
static void t_reload(uint32_t r) { N_CALL++; A_WHICH = 6; A_U32 = r; }
static uint32_t t_delay(void) { N_CALL++; A_WHICH = 7; return H_U32; }
static void t_stop(void) { N_CALL++; A_WHICH = 8; }
static void t_start(void) { N_CALL++; A_WHICH = 9; }
static uint8_t t_update(void) { N_CALL++; A_WHICH = 10; return H_U8; }
static void n_init(void) { G_SEQ++; O_NINIT = G_SEQ; }
static uint32_t n_read(uint32_t s, uint8_t *b, uint32_t n) { N_CALL++; A_WHICH = 11; A_START = s; A_BUF = b; A_SIZE = n; return H_U32; }
static uint32_t n_write(uint32_t s, uint8_t *b, uint32_t n) { N_CALL++; A_WHICH = 12; A_START = s; A_BUF = b; A_SIZE = n; return H_U32; }
static const CO_IF_CAN_DRV can_drv = { c_init, c_enable, c_read, c_send, c_reset, c_close };
static const CO_IF_TIMER_DRV tmr_drv = { t_init, t_reload, t_delay, t_stop, t_start, t_update };
static const CO_IF_NVM_DRV nvm_drv = { n_init, n_read, n_write };
uint32_t H_A, H_B, H_C; uint8_t V_B8[8];
void harness(void)
{
    vw_node_init();
    V_DRV.Can = &can_drv; V_DRV.Timer = &tmr_drv; V_DRV.Nvm = &nvm_drv;
    CO_IF *cif = &V_NODE.If; CO_ERR e0 = V_NODE.Error; CO_IF_FRM f0 = V_FRM;
    N_CALL = 0;
    int16_t r = COIfCanSend(cif, &V_FRM);
    __CPROVER_assert(N_CALL == 1 && A_WHICH == 3 && A_FRM == &V_FRM && r == H_I16 && V_FRM.Identifier == f0.Identifier && V_FRM.DLC == f0.DLC && V_FRM.Data[G_K & 7] == f0.Data[G_K & 7], "send: the frame reaches the driver once, unchanged; the driver's result is returned");
    __CPROVER_assert(V_NODE.Error == (H_I16 < 0 ? CO_ERR_IF_CAN_SEND : e0), "send: a driver fault is reported as node error, nothing else");
    N_CALL = 0; V_NODE.Error = e0;
    r = COIfCanRead(cif, &V_FRM);
    __CPROVER_assert(N_CALL == 1 && A_WHICH == 2 && A_FRM == &V_FRM && r == H_I16 && V_NODE.Error == (H_I16 < 0 ? CO_ERR_IF_CAN_READ : e0), "read: one driver call with the caller's frame; a fault is reported as node error");
    N_CALL = 0; uint32_t b0 = V_NODE.Baudrate;
    COIfCanEnable(cif, H_A);
    __CPROVER_assert(N_CALL == 1 && A_WHICH == 1 && A_U32 == (H_A == 0 ? b0 : H_A) && V_NODE.Baudrate == (H_A == 0 ? b0 : H_A), "enable: bit rate 0 means the node's bit rate; another one is remembered");
    N_CALL = 0; COIfCanReset(cif); __CPROVER_assert(N_CALL == 1 && A_WHICH == 4, "reset: driver reset");
    N_CALL = 0; COIfCanClose(cif); __CPROVER_assert(N_CALL == 1 && A_WHICH == 5, "close: driver close");
    N_CALL = 0; COIfTimerReload(cif, H_A); __CPROVER_assert(N_CALL == 1 && A_WHICH == 6 && A_U32 == H_A, "timer reload: value passed through");
    N_CALL = 0; uint32_t d = COIfTimerDelay(cif); __CPROVER_assert(N_CALL == 1 && A_WHICH == 7 && d == H_U32, "timer delay: driver value returned");
    N_CALL = 0; COIfTimerStop(cif); __CPROVER_assert(N_CALL == 1 && A_WHICH == 8, "timer stop");
    N_CALL = 0; COIfTimerStart(cif); __CPROVER_assert(N_CALL == 1 && A_WHICH == 9, "timer start");
    N_CALL = 0; uint8_t u = COIfTimerUpdate(cif); __CPROVER_assert(N_CALL == 1 && A_WHICH == 10 && u == H_U8, "timer update: driver value returned");
    N_CALL = 0; uint32_t n = COIfNvmRead(cif, H_A, V_B8, H_B); __CPROVER_assert(N_CALL == 1 && A_WHICH == 11 && A_START == H_A && A_BUF == V_B8 && A_SIZE == H_B && n == H_U32, "NVM read: offset, buffer, size passed through; the driver's count is returned");
    N_CALL = 0; n = COIfNvmWrite(cif, H_A, V_B8, H_B); __CPROVER_assert(N_CALL == 1 && A_WHICH == 12 && A_START == H_A && A_BUF == V_B8 && A_SIZE == H_B && n == H_U32, "NVM write: offset, buffer, size passed through; the driver's count is returned");
    G_SEQ = 0; N_CALL = 0; V_NODE.If.Node = 0;
    COIfInit(cif, &V_NODE, H_C);
    __CPROVER_assert(V_NODE.If.Node == &V_NODE && O_NINIT == 1 && O_TINIT == 2 && O_CINIT == 3 && G_SEQ == 3 && A_U32 == H_C && N_CALL == 0, "interface init: linked to the node; NVM, timer (with the frequency), CAN driver initialised once each");
    G_SEQ = 0; N_CALL = 0; COIfCanInit(cif, &V_NODE);
    __CPROVER_assert(O_CINIT == 1 && G_SEQ == 1 && N_CALL == 0, "CAN init (bit-rate change of LSS): exactly the driver's init");
    if (H_I16 < 0) { __CPROVER_assert(0, "REACH:a"); } else { __CPROVER_assert(0, "REACH:b"); }
    __CPROVER_assert(0, "REACH:post");
}
