/* entry for the leaf proofs of co_integer<N>.c; -include'd in front of the TU.
 * -DVW_W=1|2|4 -DVW_OP=Size|Read|Write */
#if VW_W == 1
#define VW_T uint8_t
#define VW_FN(x) COTInt8##x
#elif VW_W == 2
#define VW_T uint16_t
#define VW_FN(x) COTInt16##x
#else
#define VW_T uint32_t
#define VW_FN(x) COTInt32##x
#endif
#include "vw_defs.h"
#include "integer.h"
void harness(void)
{
    struct CO_OBJ_T *obj = &V_O; struct CO_NODE_T *node = &V_NODE; void *buffer = V_BUF; uint32_t size;
    /* pointers of the world are established by assignment (never by assumption on a
     * nondet pointer: symex would read through an unconstrained object); scalars stay nondet */
    uint32_t direct; _Bool ref; _Bool nul;
    V_O.Data = ref ? (nul ? (CO_DATA)0 : (CO_DATA)V_CELL) : (CO_DATA)(size_t)direct;
#if VW_OP == 0
    (void)VW_FN(Size)(obj, node, size);
#elif VW_OP == 1
    CO_ERR e = VW_FN(Read)(obj, node, buffer, size);
    if (e == CO_ERR_NONE) { __CPROVER_assert(0, "REACH:ok"); }
#else
    uint32_t t0 = G_TRIG_N;
    CO_ERR e = VW_FN(Write)(obj, node, buffer, size);
    if (e == CO_ERR_NONE) { __CPROVER_assert(0, "REACH:ok"); }
    if (G_TRIG_N != t0) { __CPROVER_assert(0, "REACH:trig"); }
#endif
    __CPROVER_assert(0, "REACH:post");
}
