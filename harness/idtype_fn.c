/* COB-ID object types of the SDO server (co_sdo_id.c, 1200h+n:1/2) and of the emergency producer (co_emcy_id.c,
 * 1014h) - properties C01, C04/C05 (a server never loses its request frame, servers are enabled exactly as
 * 1200h says), C15 (1014h rewrite rules); EXPLICIT form, -include'd in front of the type's TU.  The written entry
 * is V_O over V_CELL (real UNSIGNED32 code); COSdoReset / COSdoEnable are the REAL functions (co_ssdo.c).
 * -DVW_OP=0 COTSdoIdWrite 1 COTEmcyIdWrite. */
#include "vw_defs.h"
#include "vw_node.h"
uint32_t H_NEW32, H_RX, H_TX; _Bool H_RX_OK, H_TX_OK; uint8_t H_SRVNUM;
CO_ERR CODictRdLong(CO_DICT *cod, uint32_t key, uint32_t *val) { __CPROVER_assert(cod == &V_NODE.Dict && val != 0, "CODictRdLong requires"); uint8_t sub = (uint8_t)(key >> 8); if (sub == 1 && H_RX_OK) { *val = H_RX; return CO_ERR_NONE; } if (sub == 2 && H_TX_OK) { *val = H_TX; return CO_ERR_NONE; } return CO_ERR_OBJ_NOT_FOUND; }
void COTPdoTrigObj(CO_TPDO *pdo, struct CO_OBJ_T *obj) { }
CO_OBJ *CODictFind(CO_DICT *cod, uint32_t key) { return 0; }
int16_t COIfCanSend(struct CO_IF_T *cif, CO_IF_FRM *frm) { __CPROVER_assert(0, "a COB-ID write transmits nothing"); return 0; }
CO_ERR COObjRdValue(struct CO_OBJ_T *o, struct CO_NODE_T *n, void *v, uint8_t w) { CO_ERR e; return e; }
CO_ERR COObjWrValue(struct CO_OBJ_T *o, struct CO_NODE_T *n, void *v, uint8_t w) { CO_ERR e; return e; }
CO_ERR COObjRdBufStart(struct CO_OBJ_T *o, struct CO_NODE_T *n, uint8_t *b, uint32_t s) { CO_ERR e; return e; }
CO_ERR COObjRdBufCont(struct CO_OBJ_T *o, struct CO_NODE_T *n, uint8_t *b, uint32_t s) { CO_ERR e; return e; }
CO_ERR COObjWrBufStart(struct CO_OBJ_T *o, struct CO_NODE_T *n, uint8_t *b, uint32_t s) { CO_ERR e; return e; }
CO_ERR COObjWrBufCont(struct CO_OBJ_T *o, struct CO_NODE_T *n, uint8_t *b, uint32_t s) { CO_ERR e; return e; }
uint32_t COObjGetSize(struct CO_OBJ_T *o, struct CO_NODE_T *n, uint32_t width) { uint32_t r; return r; }
void harness(void)
{
    vw_node_init();
    V_O.Data = (CO_DATA)V_CELL; uint32_t old32 = *(uint32_t *)V_CELL;
#if VW_OP == 0
    V_O.Key = CO_KEY(0x1200 + (H_SRVNUM & 0x7F), 1 + (V_O.Key >> 8 & 1), V_O.Key & 0x3F);   /* 1200h+n sub 1 or 2, referenced storage, not node-id relative */
    uint8_t num = H_SRVNUM & 0x7F;
    __CPROVER_assume(G_N < CO_SSDO_N);
    CO_SDO s0 = V_NODE.Sdo[G_N];
    /* after a successful write the dictionary delivers the written value for the written sub-index */
    CO_ERR e = COTSdoIdWrite(&V_O, &V_NODE, &H_NEW32, 4);
    _Bool was_valid = (old32 & 0x80000000u) == 0, new_valid = (H_NEW32 & 0x80000000u) == 0;
    if (was_valid && new_valid) {
        __CPROVER_assert(e == CO_ERR_OBJ_RANGE && *(uint32_t *)V_CELL == old32 && V_NODE.Sdo[G_N].RxId == s0.RxId && V_NODE.Sdo[G_N].TxId == s0.TxId && V_NODE.Sdo[G_N].Obj == s0.Obj, "a valid COB-ID can only be switched off, not changed: refused, nothing happens");
        __CPROVER_assert(0, "REACH:a");
    } else {
        __CPROVER_assert(e == CO_ERR_NONE && *(uint32_t *)V_CELL == H_NEW32, "the value is stored");
        if (G_N == num) {
            _Bool on = H_RX_OK && H_TX_OK && (H_RX & 0x80000000u) == 0 && (H_TX & 0x80000000u) == 0;
            __CPROVER_assert(V_NODE.Sdo[G_N].RxId == (on ? H_RX : 0x80000000u) && V_NODE.Sdo[G_N].TxId == (on ? H_TX : 0x80000000u), "the server listens exactly if both COB-IDs of its record are valid, with those identifiers");
            if (was_valid) { __CPROVER_assert(V_NODE.Sdo[G_N].Obj == 0 && V_NODE.Sdo[G_N].Blk.State == BLK_IDLE && V_NODE.Sdo[G_N].Buf.Cur == V_NODE.Sdo[G_N].Buf.Start && V_NODE.Sdo[G_N].Buf.Num == 0, "switching a server off closes its open transfer"); __CPROVER_assert(0, "REACH:b"); }
        } else {
            __CPROVER_assert(V_NODE.Sdo[G_N].RxId == s0.RxId && V_NODE.Sdo[G_N].TxId == s0.TxId && V_NODE.Sdo[G_N].Obj == s0.Obj && V_NODE.Sdo[G_N].Blk.State == s0.Blk.State && V_NODE.Sdo[G_N].Buf.Cur == s0.Buf.Cur, "every other server is untouched");
        }
    }
    __CPROVER_assert(V_NODE.Sdo[G_N].Frm == s0.Frm && V_NODE.Sdo[G_N].Node == &V_NODE && V_NODE.Sdo[G_N].Buf.Start == s0.Buf.Start, "a type function never takes the request frame (or the buffer) away from a server: the request that carries the write is still answered");
#else
    V_O.Key = CO_KEY(0x1014, 0, V_O.Key & 0x3F);
    CO_ERR e = COTEmcyIdWrite(&V_O, &V_NODE, &H_NEW32, 4);
    _Bool was_valid = (old32 & 0x80000000u) == 0;
    if (was_valid) {
        _Bool same = (H_NEW32 & 0x1FFFFFFFu) == (old32 & 0x1FFFFFFFu);
        __CPROVER_assert(same ? (e == CO_ERR_NONE && *(uint32_t *)V_CELL == H_NEW32) : (e == CO_ERR_OBJ_RANGE && *(uint32_t *)V_CELL == old32), "while the EMCY COB-ID is valid the identifier bits cannot be changed (only the valid bit)");
        if (same) { __CPROVER_assert(0, "REACH:a"); } else { __CPROVER_assert(0, "REACH:b"); }
    } else {
        /* (80h itself - the SYNC identifier - is accepted by the code; the property does not say: unconstrained) */
        __CPROVER_assert(H_NEW32 >= 0x81 ? (e == CO_ERR_NONE && *(uint32_t *)V_CELL == H_NEW32) : H_NEW32 < 0x80 ? (e == CO_ERR_OBJ_RANGE && *(uint32_t *)V_CELL == old32) : (e == CO_ERR_NONE || *(uint32_t *)V_CELL == old32), "while it is invalid any identifier >= 81h is accepted, the identifiers of NMT / below 80h are refused; accepted = stored, refused = unchanged");
    }
#endif
    __CPROVER_assert(0, "REACH:post");
}
