/* Timer manager (co_tmr.c) - properties C07 / C08, EXPLICIT form, BOUNDED-INDUCTIVE:
 * for a pool of VW_TMR_N actions/events the harness constructs an ARBITRARY well-formed pool state (every slot
 * free / pending / elapsed, any list order, any deltas and periods - pointers by assignment), runs ONE operation of
 * the real code and asserts (1) the pool is well-formed again (spec_wf: every slot in exactly one list, no event
 * without action, ActionEnd right) and conserved, (2) the abstract view changed exactly as specified:
 *   status(a) in {free, pending, elapsed}, due(a) = remaining hardware ticks + deltas up to a's event.
 * By induction over operation sequences the step obligations give the history property for pools of this size.
 * Hardware timer: down-counter model G_HW (Delay() = remaining ticks of the first event, Reload sets it).
 * -DVW_OP=0 Create 1 Delete 2 Service 3 Process;  -DVW_ISR: C08 - COTmrLock()/COTmrUnlock() run the interrupt service
 * (COTmrService on an expired counter) before acquiring / after releasing the lock. -include'd in front of co_tmr.c. */
#include "vw_defs.h"
#include "vw_node.h"
#ifndef VW_TMR_N
#define VW_TMR_N 2
#endif
#define N VW_TMR_N
CO_TMR_MEM V_TMEM[N];
#define ACT(k) (&V_TMEM[k].Act)
#define EVT(k) (&V_TMEM[k].Tmr)
#define TM (V_NODE.Tmr)
/* construction inputs */
uint8_t H_EST[N], H_EORD[N], H_AORD[N]; int8_t H_AEV[N];
/* hardware model */
uint32_t G_HW; _Bool G_HW_RUN; uint32_t N_RELOAD, N_STOP, N_START; _Bool H_FAULT; uint8_t H_UPD;
void COIfTimerReload(struct CO_IF_T *cif, uint32_t reload) { G_HW = reload; N_RELOAD++; }
uint32_t COIfTimerDelay(struct CO_IF_T *cif) { return G_HW; }
void COIfTimerStop(struct CO_IF_T *cif) { G_HW_RUN = 0; N_STOP++; }
void COIfTimerStart(struct CO_IF_T *cif) { G_HW_RUN = 1; N_START++; }
/* Update: 1 exactly when the counter of a running timer has expired; with H_FAULT the driver reports anything (C01) */
uint8_t COIfTimerUpdate(struct CO_IF_T *cif) { if (H_FAULT) { return H_UPD; } return (TM.Use != 0 && G_HW == 0) ? 1 : 0; }
void CONodeFatalError(void) { __CPROVER_assert(0, "CONodeFatalError must not be reached"); }
/* callbacks: count the calls per action (Para = index) */
uint32_t CB_N[N]; uint32_t CB_TOTAL; int8_t CB_STATUS[N]; uint32_t CB_DUE[N];
static int spec_status(int a);
static uint32_t spec_due(int a);
static void cb_log(void *p) { int k = (int)(size_t)p; if (k >= 0 && k < N) { CB_N[k]++; CB_STATUS[k] = (int8_t)spec_status(k); CB_DUE[k] = spec_due(k); } CB_TOTAL++; }
/* C08: interrupt injection at the lock boundaries */
uint32_t N_LOCK, N_UNLOCK, N_ISR; int8_t LOCKED; _Bool H_ISR[8]; uint32_t ISR_I, H_ISR_AT;
int16_t COTmrService(CO_TMR *tmr);
static int spec_status(int k);
uint32_t EXP[VW_TMR_N];      /* ghost: how often action k was moved to the elapsed list by an interrupt inside the operation */
static void isr_service(void)
{
    /* the service moves the first pending event to the elapsed list exactly when it reports an expiry: its actions expire */
    CO_TMR_TIME *tx = V_NODE.Tmr.Use;
    if (tx != 0) { G_HW = 0; }
    N_ISR++;
    if (COTmrService(&V_NODE.Tmr) > 0 && tx != 0) {
        CO_TMR_ACTION *a = tx->Action;
        for (int i = 0; i < VW_TMR_N && a != 0; i++) { for (int k = 0; k < VW_TMR_N; k++) { if (a == &V_TMEM[k].Act) { EXP[k]++; } } a = a->Next; }
    }
}
static void isr(void)
{
#ifdef VW_ISR
#ifdef VW_ISR_ONCE
    if (ISR_I == H_ISR_AT) { isr_service(); }              /* exactly one preemption, at any preemption point */
#else
    if (ISR_I < 8 && H_ISR[ISR_I]) { isr_service(); }   /* the counter may expire at any preemption point */
#endif
    ISR_I++;
#endif
}
void COTmrLock(void) { isr(); __CPROVER_assert(LOCKED == 0, "lock is not taken twice"); LOCKED = 1; N_LOCK++; }
void COTmrUnlock(void) { __CPROVER_assert(LOCKED == 1, "unlock only after lock"); LOCKED = 0; N_UNLOCK++; isr(); }

/* ---------- construction of an arbitrary well-formed pool ---------- */
static int next_evt(int st, int after_ord) { int r = -1; for (int k = 0; k < N; k++) { if (H_EST[k] == st && (int)H_EORD[k] > after_ord && (r < 0 || H_EORD[k] < H_EORD[r])) { r = k; } } return r; }
static int next_act(int ev, int after_ord) { int r = -1; for (int k = 0; k < N; k++) { if (H_AEV[k] == ev && (int)H_AORD[k] > after_ord && (r < 0 || H_AORD[k] < H_AORD[r])) { r = k; } } return r; }
static void vw_tmr_build(void)
{
    TM.Node = &V_NODE; TM.Max = N; TM.APool = ACT(0); TM.TPool = EVT(0);
    for (int k = 0; k < N; k++) {
        __CPROVER_assume(H_EST[k] <= 2 && H_AEV[k] >= -1 && H_AEV[k] < N);
        __CPROVER_assume(H_AEV[k] < 0 || H_EST[H_AEV[k]] != 0);                          /* a used action hangs on a used event */
        for (int j = 0; j < k; j++) { __CPROVER_assume(H_EORD[j] != H_EORD[k] && H_AORD[j] != H_AORD[k]); }
        ACT(k)->Id = (uint16_t)k; ACT(k)->Para = (void *)(size_t)k;
        ACT(k)->Func = H_AEV[k] >= 0 ? cb_log : (CO_TMR_FUNC)0;
        if (H_AEV[k] < 0) { ACT(k)->CycleTicks = 0; }
    }
    for (int k = 0; k < N; k++) { if (H_EST[k] != 0) { __CPROVER_assume(next_act(k, -1) >= 0); } }   /* no used event without action */
    /* event lists */
    CO_TMR_TIME **link; int e, o;
    for (int st = 0; st <= 2; st++) {
        link = st == 0 ? &TM.Free : st == 1 ? &TM.Use : &TM.Elapsed; o = -1;
        for (int i = 0; i < N; i++) { e = next_evt(st, o); if (e >= 0) { *link = EVT(e); link = &EVT(e)->Next; o = H_EORD[e]; } }
        *link = 0;
    }
    /* action lists */
    CO_TMR_ACTION **al; int a;
    for (int k = 0; k < N; k++) {
        if (H_EST[k] == 0) { EVT(k)->Action = 0; EVT(k)->ActionEnd = 0; }
        else { al = &EVT(k)->Action; o = -1; for (int i = 0; i < N; i++) { a = next_act(k, o); if (a >= 0) { *al = ACT(a); al = &ACT(a)->Next; EVT(k)->ActionEnd = ACT(a); o = H_AORD[a]; } } *al = 0; }
    }
    al = &TM.Acts; o = -1;
    for (int i = 0; i < N; i++) { a = next_act(-1, o); if (a >= 0) { *al = ACT(a); al = &ACT(a)->Next; o = H_AORD[a]; } }
    *al = 0;
    /* hardware: the counter never exceeds the delta it was loaded with; total time within 32 bit */
    if (TM.Use != 0) { __CPROVER_assume(G_HW <= TM.Use->Delta); }
    for (int k = 0; k < N; k++) { if (H_EST[k] == 1) { __CPROVER_assume(EVT(k)->Delta > 0); } }   /* WF: pending events are strictly ordered in time */
    uint64_t sum = 0; for (int k = 0; k < N; k++) { if (H_EST[k] == 1) { sum += EVT(k)->Delta; } } __CPROVER_assume(sum < 0x80000000u);
    LOCKED = 0;
}
/* ---------- abstract view (evaluated on the real pointer structure) ---------- */
static int evt_idx(CO_TMR_TIME *t) { int r = -1; for (int k = 0; k < N; k++) { if (t == EVT(k)) { r = k; } } return r; }
static int act_idx(CO_TMR_ACTION *a) { int r = -1; for (int k = 0; k < N; k++) { if (a == ACT(k)) { r = k; } } return r; }
/* status: -1 free, 0 pending, 1 elapsed, -2 lost (in no list) */
static int spec_status(int a)
{
    int r = -2; CO_TMR_ACTION *p; CO_TMR_TIME *t; int i, j;
    p = TM.Acts; for (i = 0; i < N && p != 0; i++) { if (p == ACT(a)) { r = -1; } p = p->Next; }
    t = TM.Use; for (i = 0; i < N && t != 0; i++) { p = t->Action; for (j = 0; j < N && p != 0; j++) { if (p == ACT(a)) { r = 0; } p = p->Next; } t = t->Next; }
    t = TM.Elapsed; for (i = 0; i < N && t != 0; i++) { p = t->Action; for (j = 0; j < N && p != 0; j++) { if (p == ACT(a)) { r = 1; } p = p->Next; } t = t->Next; }
    return r;
}
static uint32_t spec_due(int a)
{
    uint32_t due = 0, acc = 0; CO_TMR_ACTION *p; CO_TMR_TIME *t = TM.Use; int i, j;
    for (i = 0; i < N && t != 0; i++) { acc = (i == 0) ? G_HW : acc + t->Delta; p = t->Action; for (j = 0; j < N && p != 0; j++) { if (p == ACT(a)) { due = acc; } p = p->Next; } t = t->Next; }
    return due;
}
/* well-formedness: every event and every action is in exactly one list, lists are terminated, used events non-empty, ActionEnd is the last action */
static _Bool spec_wf(void)
{
    int ecnt[N], acnt[N]; _Bool ok = 1; CO_TMR_TIME *t; CO_TMR_ACTION *p, *last; int i, j, k, li;
    for (k = 0; k < N; k++) { ecnt[k] = 0; acnt[k] = 0; }
    for (li = 0; li < 3; li++) {
        t = li == 0 ? TM.Free : li == 1 ? TM.Use : TM.Elapsed;
        for (i = 0; i < N + 1 && t != 0; i++) {
            k = evt_idx(t); if (k < 0 || i == N) { ok = 0; break; } ecnt[k]++;
            if (li == 1 && t->Delta == 0) { ok = 0; }                       /* pending events strictly ordered in time */
            if (li != 0) { p = t->Action; last = 0; if (p == 0) { ok = 0; }
                for (j = 0; j < N + 1 && p != 0; j++) { int a = act_idx(p); if (a < 0 || j == N) { ok = 0; break; } acnt[a]++; last = p; p = p->Next; }
                if (t->ActionEnd != last) { ok = 0; } }
            t = t->Next;
        }
    }
    p = TM.Acts; for (j = 0; j < N + 1 && p != 0; j++) { int a = act_idx(p); if (a < 0 || j == N) { ok = 0; break; } acnt[a]++; p = p->Next; }
    for (k = 0; k < N; k++) { if (ecnt[k] != 1 || acnt[k] != 1) { ok = 0; } }   /* conservation: free + pending + elapsed == capacity */
    return ok;
}
uint32_t H_START, H_CYCLE; int16_t H_ID; _Bool H_NULLFN;
void harness(void)
{
    vw_node_init();
    vw_tmr_build();
    __CPROVER_assert(spec_wf(), "construction: the pre-state is well-formed");
    int st0[N]; uint32_t due0[N], cyc0[N]; int k, nfree = 0;
    for (k = 0; k < N; k++) { st0[k] = spec_status(k); due0[k] = spec_due(k); cyc0[k] = ACT(k)->CycleTicks; CB_N[k] = 0; CB_STATUS[k] = -9; if (st0[k] == -1) { nfree++; } }
    CB_TOTAL = 0; ISR_I = 0; N_ISR = 0; for (k = 0; k < N; k++) { EXP[k] = 0; }
#ifndef VW_ISR
#define ELAPSED_BY_ISR(k) 0
#else
/* an interrupt inside the operation may have moved pending actions to the elapsed list (due 0 at that moment) */
#define ELAPSED_BY_ISR(k) (N_ISR > 0 && st0[k] == 0 && spec_status(k) == 1)
#endif
#if VW_OP == 0
    int16_t id = COTmrCreate(&TM, H_START, H_CYCLE, H_NULLFN ? (CO_TMR_FUNC)0 : cb_log, (void *)(size_t)7);
    uint32_t first = H_START == 0 ? H_CYCLE : H_START;
    __CPROVER_assert(spec_wf(), "create: pool well-formed and conserved");
    __CPROVER_assert((id < 0) == (nfree == 0 || (H_START == 0 && H_CYCLE == 0) || H_NULLFN), "creation fails exactly when no slot is free, both times are zero (or no function is given)");
    if (id >= 0) {
        __CPROVER_assert(id < N && st0[id] == -1 && (spec_status(id) == 0 || (N_ISR > 0 && spec_status(id) == 1)), "create: a free slot becomes pending (or has already elapsed by an interrupt after the release)");
#ifndef VW_ISR
        __CPROVER_assert(spec_due(id) == first, "create: first expiry after the start delay (or the period if the delay is zero)");
#endif
        __CPROVER_assert(ACT(id)->CycleTicks == H_CYCLE && ACT(id)->Func == cb_log && ACT(id)->Para == (void *)(size_t)7, "create: period, callback and argument as given");
    }
    for (k = 0; k < N; k++) { if (k != id) {
        __CPROVER_assert(spec_status(k) == st0[k] || ELAPSED_BY_ISR(k), "create: no other action changes its state");
#ifndef VW_ISR
        __CPROVER_assert(st0[k] == 0 ==> spec_due(k) == due0[k], "create: no other action's due time shifts");
#endif
    } }
    if (id >= 0 && nfree == 1) { __CPROVER_assert(0, "REACH:a"); }
    if (id < 0 && nfree == 0) { __CPROVER_assert(0, "REACH:b"); }
#elif VW_OP == 1
    int16_t r = COTmrDelete(&TM, H_ID);
    __CPROVER_assert(spec_wf(), "delete: pool well-formed and conserved (also for an elapsed, not yet processed action)");
    _Bool valid = H_ID >= 0 && H_ID < N && st0[H_ID < 0 || H_ID >= N ? 0 : H_ID] != -1;
    __CPROVER_assert((r == 0) == valid, "delete is confirmed exactly for a pending or elapsed action");
    for (k = 0; k < N; k++) {
        if (valid && k == H_ID) { __CPROVER_assert(spec_status(k) == -1 && ACT(k)->Func == 0, "delete: the action is free and will never be called"); }
        else {
            __CPROVER_assert(spec_status(k) == st0[k] || ELAPSED_BY_ISR(k), "delete: no other action changes its state");
#ifndef VW_ISR
            __CPROVER_assert(st0[k] == 0 ==> spec_due(k) == due0[k], "delete: no other action's due time shifts");
#endif
        }
    }
    if (r == 0 && st0[H_ID] == 1) { __CPROVER_assert(0, "REACH:a"); }
    if (r == 0 && st0[H_ID] == 0 && N_RELOAD == 1) { __CPROVER_assert(0, "REACH:b"); }
#elif VW_OP == 2
    uint32_t hw0 = G_HW; _Bool expired = TM.Use != 0 && G_HW == 0;
    int16_t r = COTmrService(&TM);
    __CPROVER_assert(spec_wf(), "service: pool well-formed and conserved (also when the driver misreports)");
    if (!H_FAULT) {
        __CPROVER_assert((r == 1) == expired, "service: reports an expiry exactly when the counter has run down");
        for (k = 0; k < N; k++) {
            _Bool duenow = st0[k] == 0 && due0[k] == 0 && expired;
            __CPROVER_assert(spec_status(k) == (duenow ? 1 : st0[k]), "service: exactly the actions that are due become elapsed, all of them");
            __CPROVER_assert((st0[k] == 0 && !duenow) ==> spec_due(k) == due0[k], "service: the other pending actions keep their due time");
        }
    }
    if (r == 1 && TM.Use != 0) { __CPROVER_assert(0, "REACH:a"); }
    if (r == 0) { __CPROVER_assert(0, "REACH:b"); }
#else
    COTmrProcess(&TM);
    __CPROVER_assert(spec_wf(), "process: pool well-formed and conserved");
    __CPROVER_assert(TM.Elapsed == 0, "process: every elapsed action is handled in this step");
    for (k = 0; k < N; k++) {
#ifndef VW_ISR
        __CPROVER_assert(CB_N[k] == (st0[k] == 1 ? 1u : 0u), "process: the callback of every elapsed action runs exactly once, no other callback runs");
#else
        /* every expiry - the one before the call and each one an interrupt adds while processing (a re-armed cyclic action may
         * expire again) - is answered by exactly one callback, or is still waiting in the elapsed list: none lost, none doubled */
        __CPROVER_assert(CB_N[k] + (spec_status(k) == 1 ? 1u : 0u) == (st0[k] == 1 ? 1u : 0u) + EXP[k], "process under preemption: callbacks + still elapsed == expiries, for every action");
#endif
#ifndef VW_ISR
        if (st0[k] == 1 && cyc0[k] == 0) { __CPROVER_assert(spec_status(k) == -1, "process: a one-shot action frees its slot"); }
        if (st0[k] == 1 && cyc0[k] != 0) { __CPROVER_assert(spec_status(k) == 0 && CB_STATUS[k] == 0 && CB_DUE[k] == cyc0[k], "process: a cyclic action is pending again, one period ahead, before its callback runs"); }
        if (st0[k] == 0) { __CPROVER_assert(spec_status(k) == 0 && spec_due(k) == due0[k], "process: pending actions are untouched"); }
        if (st0[k] == -1) { __CPROVER_assert(spec_status(k) == -1, "process: free slots stay free"); }
#endif
    }
    if (CB_TOTAL == N) { __CPROVER_assert(0, "REACH:a"); }
    if (CB_TOTAL == 0) { __CPROVER_assert(0, "REACH:b"); }
#endif
    __CPROVER_assert(LOCKED == 0, "critical sections are balanced");
    __CPROVER_assert(0, "REACH:post");
}
