#include "vw_defs.h"
#include "dict.h"

void harness(void)
{
    CO_DICT *cod; CO_NODE *node; CO_OBJ *root; uint16_t max;
    int16_t n = CODictInit(cod, node, root, max);
    __CPROVER_assert(0, "REACH:post");
    if (n > 3 && n < max) { __CPROVER_assert(0, "REACH:some"); }
    if (n == max && max > 2) { __CPROVER_assert(0, "REACH:full"); }
}
