/* CONmtReset against reset.h (fresh-start predicate).  The dictionary holds at most the store object 1010h:00
 * (G_DNUM <= 1): CODictFind runs inline; every other callee is replaced by its (stamped) contract. */
#include "vw_defs.h"
#include "vw_node.h"
#include "reset.h"
CO_NMT_RESET H_TYPE; CO_HBCONS V_HBC0; _Bool H_HBC;
void harness(void)
{
    vw_node_init();
    vw_dict_alloc();
    __CPROVER_assume(G_DNUM <= 1 && (G_DNUM == 0 || DEV(G_DROOT[0].Key) == CO_DEV(0x1010, 0)));
    V_NODE.Nmt.HbCons = H_HBC ? &V_HBC0 : (CO_HBCONS *)0;
    G_ORD = 0; G_ORD_LSSLOAD = G_ORD_LSSINIT = G_ORD_TMRCLEAR = G_ORD_NMTINIT = G_ORD_SDOINIT = G_ORD_CANRESET = G_ORD_EMCYRESET = G_ORD_SYNCINIT = G_ORD_BOOTUP = G_ORD_PARA_NODE = G_ORD_PARA_COM = 0;
    CO_MODE m0 = V_NODE.Nmt.Mode;
    CONmtReset(&V_NODE.Nmt, H_TYPE);
    if (m0 == CO_OPERATIONAL && H_TYPE == CO_RESET_COM) { __CPROVER_assert(0, "REACH:a"); }
    if (m0 == CO_INIT) { __CPROVER_assert(0, "REACH:b"); }
    if (G_PARARESET_NODE_N != 0) { __CPROVER_assert(0, "REACH:c"); }
    __CPROVER_assert(0, "REACH:post");
}
