/* communication parameter object types in EXPLICIT form (-include'd in front of the type's TU):
 * co_sync_id.c (1005h, COSyncProdActivate/Deactivate), co_sync_cycle.c (1006h), co_hb_prod.c (1017h).
 * The written entry is V_O with storage V_CELL (real integer code inline); timer manager, driver and the other
 * dictionary entries through stubs.  -DVW_OP=0 SyncIdWrite 1 SyncCycleWrite 2 SyncIdInit 3 HbProdWrite 4 HbProdInit 5 HbProdSend */
#include "vw_defs.h"
#include "vw_node.h"
#include "nmt.h"
#include "tmr_if.h"
uint32_t H_CYCLE; _Bool H_CYCLE_OK; uint32_t H_NEW32; uint16_t H_NEW16;
uint32_t N_TDEL, N_TCRE, N_SEND; int16_t D_ID, H_TID, H_DELRES; uint32_t C_START, C_CYCLE; CO_TMR_FUNC C_FUNC; void *C_PARA; CO_IF_FRM S_FRM;
CO_ERR CODictRdLong(CO_DICT *cod, uint32_t key, uint32_t *val) { __CPROVER_assert(cod == &V_NODE.Dict && val != 0, "CODictRdLong requires"); if (DEV(key) == CO_DEV(0x1006, 0) && H_CYCLE_OK) { *val = H_CYCLE; return CO_ERR_NONE; } return CO_ERR_OBJ_NOT_FOUND; }
int16_t COTmrDelete(CO_TMR *tmr, int16_t actId) { __CPROVER_assert(tmr == &V_NODE.Tmr && actId >= 0, "COTmrDelete requires: a valid id"); N_TDEL++; D_ID = actId; __CPROVER_assume(H_DELRES == 0 || H_DELRES == -1); return H_DELRES; }
int16_t COTmrCreate(CO_TMR *tmr, uint32_t s, uint32_t c, CO_TMR_FUNC f, void *p) { __CPROVER_assert(tmr == &V_NODE.Tmr, "COTmrCreate requires"); N_TCRE++; C_START = s; C_CYCLE = c; C_FUNC = f; C_PARA = p; __CPROVER_assume(H_TID >= -1 && ((s == 0 && c == 0) ==> H_TID == -1)); return H_TID; }
/* tick conversion / smallest resolvable time: abstract results (the conversion itself is C07); the arguments are logged:
 * a period must reach the conversion un-narrowed (symbolic multiply/divide is intractable for SAT, DESIGN 2) */
uint32_t H_TICKS; uint16_t H_MINT; uint16_t A_TIME; uint32_t A_UNIT, N_GETTICKS;
uint32_t COTmrGetTicks(CO_TMR *tmr, uint16_t time, uint32_t unit) { N_GETTICKS++; A_TIME = time; A_UNIT = unit; __CPROVER_assume((time == 0) ==> (H_TICKS == 0)); return H_TICKS; }
uint16_t COTmrGetMinTime(CO_TMR *tmr, uint32_t unit) { __CPROVER_assert(unit == 10000, "COTmrGetMinTime: 100 us unit"); return H_MINT; }
#undef TMR_TICKS
#define TMR_TICKS(freq, time, unit) (H_TICKS)
#define TICKS_ARGS(time, unit) (N_GETTICKS == 1 && (uint32_t)A_TIME == (uint32_t)(time) && A_UNIT == (unit))
int16_t COIfCanSend(struct CO_IF_T *cif, CO_IF_FRM *frm) { N_SEND++; S_FRM = *frm; int16_t r; return r; }
void COTPdoTrigObj(CO_TPDO *pdo, struct CO_OBJ_T *obj) { }
void COSyncProdSend(void *parg);
#define SY (V_NODE.Sync)
#define PRODUCING(id) (((id) & (1u << 30)) != 0)
#define IDBITS(id) ((id) & 0x1FFFFFFFu)
/* a period is resolvable when it is at least the smallest timer step and its 100 us count fits the tick conversion */
static _Bool spec_resolvable(uint32_t cycle) { return (uint32_t)H_MINT * 100u <= cycle && cycle / 100u <= 0xFFFFu; }
void harness(void)
{
    vw_node_init();
    __CPROVER_assume(WF_NMT() && SY.Tmr >= -1 && V_NODE.Nmt.Tmr >= -1);
    N_TDEL = N_TCRE = N_SEND = N_GETTICKS = 0;
    V_O.Key = V_O.Key & 0xFFFFFF3F; V_O.Data = (CO_DATA)V_CELL;     /* referenced storage, not node-id relative */
    uint32_t old32 = *(uint32_t *)V_CELL; uint16_t old16 = *(uint16_t *)V_CELL; int16_t t0 = SY.Tmr; uint32_t cob0 = SY.CobId;
#if VW_OP == 0
    V_O.Key = CO_KEY(0x1005, 0, V_O.Key);
    __CPROVER_assume(SY.CobId == old32 && (PRODUCING(old32) ? 1 : SY.Tmr == -1));   /* WF_SYNC: CobId mirrors 1005h; a timer only while producing */
    CO_ERR e = COTSyncIdWrite(&V_O, &V_NODE, &H_NEW32, 4);
    if (PRODUCING(old32) && IDBITS(H_NEW32) != IDBITS(old32)) {
        __CPROVER_assert(e == CO_ERR_OBJ_RANGE && *(uint32_t *)V_CELL == old32 && SY.CobId == cob0 && SY.Tmr == t0 && N_TDEL + N_TCRE == 0, "the CAN-ID cannot be changed while producing: 0609 0030h, nothing changes");
    } else if (PRODUCING(old32) && !PRODUCING(H_NEW32)) {
        __CPROVER_assert(e == CO_ERR_NONE && *(uint32_t *)V_CELL == H_NEW32 && SY.CobId == H_NEW32 && SY.Tmr == -1 && (t0 >= 0 ==> (N_TDEL == 1 && D_ID == t0)) && N_TCRE == 0, "clearing bit 30 stops production at once");
    } else if (!PRODUCING(old32) && PRODUCING(H_NEW32) && H_CYCLE_OK) {
        if (spec_resolvable(H_CYCLE)) {
            __CPROVER_assert(e == CO_ERR_NONE && *(uint32_t *)V_CELL == H_NEW32 && SY.CobId == H_NEW32, "setting bit 30 with a resolvable period is accepted");
            __CPROVER_assert((H_CYCLE / 100 > 0) ==> (N_TCRE == 1 && C_START == H_TICKS && TICKS_ARGS(H_CYCLE / 100, 10000) && C_CYCLE == C_START && C_FUNC == COSyncProdSend && C_PARA == &SY && SY.Tmr == H_TID), "production starts at once: cyclic action with the period of 1006h converted to ticks (not narrowed)");
        } else {
            __CPROVER_assert(e == CO_ERR_OBJ_RANGE && *(uint32_t *)V_CELL == old32 && SY.CobId == cob0 && N_TCRE == 0 && N_TDEL == 0 && SY.Tmr == t0, "a period the timer cannot resolve: refused, previous value kept, nothing else changes");
        }
    } else if (!PRODUCING(old32) && !PRODUCING(H_NEW32)) {
        __CPROVER_assert(e == CO_ERR_NONE && *(uint32_t *)V_CELL == H_NEW32 && SY.CobId == H_NEW32 && N_TCRE + N_TDEL == 0, "consumer identifier change takes effect at once");
    }
    if (N_TCRE == 1) { __CPROVER_assert(0, "REACH:a"); }
    if (e == CO_ERR_OBJ_RANGE && !PRODUCING(old32)) { __CPROVER_assert(0, "REACH:b"); }
#elif VW_OP == 1
    V_O.Key = CO_KEY(0x1006, 0, V_O.Key);
    __CPROVER_assume(PRODUCING(SY.CobId) ? 1 : SY.Tmr == -1);
    H_CYCLE_OK = 1;
    CO_ERR e = COTSyncCycleWrite(&V_O, &V_NODE, &H_NEW32, 4);
    /* the stub of 1006h delivers what is stored after the write */
    __CPROVER_assume(H_CYCLE == H_NEW32);
    if (!PRODUCING(cob0)) {
        __CPROVER_assert(e == CO_ERR_NONE && *(uint32_t *)V_CELL == H_NEW32 && N_TCRE + N_TDEL == 0, "period write while not producing: stored, no timer");
    } else if (spec_resolvable(H_NEW32)) {
        __CPROVER_assert(e == CO_ERR_NONE && *(uint32_t *)V_CELL == H_NEW32, "resolvable period accepted");
        __CPROVER_assert((t0 >= 0) ==> (N_TDEL == 1 && D_ID == t0), "re-timing deletes the running action first");
        __CPROVER_assert((H_NEW32 / 100 > 0) ==> (N_TCRE == 1 && C_START == H_TICKS && TICKS_ARGS(H_NEW32 / 100, 10000) && C_CYCLE == C_START && SY.Tmr == H_TID), "production is re-timed at once with the new period");
    } else {
        __CPROVER_assert(e == CO_ERR_OBJ_RANGE && *(uint32_t *)V_CELL == old32 && N_TCRE == 0 && N_TDEL == 0 && SY.Tmr == t0, "unresolvable period refused, previous value kept, the running production is not disturbed");
    }
    if (N_TCRE == 1 && N_TDEL == 1) { __CPROVER_assert(0, "REACH:a"); }
    if (e == CO_ERR_OBJ_RANGE) { __CPROVER_assert(0, "REACH:b"); }
#elif VW_OP == 2
    V_O.Key = CO_KEY(0x1005, 0, V_O.Key);
    __CPROVER_assume(SY.Tmr == -1 && SY.CobId == 0);                 /* after COSyncInit */
    CO_ERR e = COTSyncIdInit(&V_O, &V_NODE);
    __CPROVER_assert(e == CO_ERR_NONE && SY.CobId == old32, "init: SYNC is recognised as 1005h says");
    __CPROVER_assert((PRODUCING(old32) && H_CYCLE_OK && spec_resolvable(H_CYCLE) && H_CYCLE / 100 > 0) ==> (N_TCRE == 1 && C_START == H_TICKS && TICKS_ARGS(H_CYCLE / 100, 10000) && C_CYCLE == C_START && SY.Tmr == H_TID), "init: production as 1005h/1006h say");
    __CPROVER_assert(!PRODUCING(old32) ==> N_TCRE == 0, "init: no production without bit 30");
    if (N_TCRE == 1) { __CPROVER_assert(0, "REACH:a"); }
    if (N_TCRE == 0) { __CPROVER_assert(0, "REACH:b"); }
#elif VW_OP == 3 || VW_OP == 4
    V_O.Key = CO_KEY(0x1017, 0, V_O.Key);
    int16_t h0 = V_NODE.Nmt.Tmr;
#if VW_OP == 3
    CO_ERR e = COTNmtHbProdWrite(&V_O, &V_NODE, &H_NEW16, 2);
    uint16_t time = H_NEW16;
    __CPROVER_assert(e == CO_ERR_NONE ==> *(uint16_t *)V_CELL == H_NEW16, "accepted heartbeat time is stored");
#else
    CO_ERR e = COTNmtHbProdInit(&V_O, &V_NODE);
    uint16_t time = old16;
#endif
    __CPROVER_assert((h0 >= 0) ==> (N_TDEL == 1 && D_ID == h0), "a running heartbeat action is deleted first (exactly its own id)");
    __CPROVER_assert((h0 < 0) ==> N_TDEL == 0, "no other action is deleted");
    __CPROVER_assert((e == CO_ERR_NONE && time > 0) ==> (N_TCRE == 1 && C_START == H_TICKS && TICKS_ARGS(time, 1000) && C_CYCLE == C_START && C_PARA == &V_NODE.Nmt && V_NODE.Nmt.Tmr == H_TID && H_TID >= 0), "time > 0: cyclic action with exactly the period in ticks, restarted from now");
    __CPROVER_assert((e == CO_ERR_NONE && time == 0) ==> (N_TCRE == 0 && V_NODE.Nmt.Tmr == -1), "time 0: the producer is stopped");
    if (N_TCRE == 1 && N_TDEL == 1) { __CPROVER_assert(0, "REACH:a"); }
    if (e == CO_ERR_NONE && time == 0) { __CPROVER_assert(0, "REACH:b"); }
#else
    CONmtHbProdSend(&V_NODE.Nmt);
    _Bool on = (V_NODE.Nmt.Allowed & CO_NMT_ALLOWED) != 0;
    __CPROVER_assert(N_SEND == (on ? 1 : 0), "heartbeat in every state after boot-up (PRE-OPERATIONAL, OPERATIONAL, STOPPED), none before");
    __CPROVER_assert(on ==> (S_FRM.Identifier == 0x700u + V_NODE.NodeId && S_FRM.DLC == 1 && S_FRM.Data[0] == (V_NODE.Nmt.Mode == CO_PREOP ? 127 : V_NODE.Nmt.Mode == CO_OPERATIONAL ? 5 : 4)), "heartbeat frame: 700h+id, one byte, current NMT state 127/5/4");
    if (on && S_FRM.Data[0] == 4) { __CPROVER_assert(0, "REACH:a"); }
    if (!on) { __CPROVER_assert(0, "REACH:b"); }
#endif
    __CPROVER_assert(0, "REACH:post");
}
