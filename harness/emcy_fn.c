/* emergency service against emcy.h; statics COEmcySetErr/Update/Send inline. -DVW_OP=0 Set 1 Clr 2 Get 3 Cnt 4 Reset */
#include "vw_defs.h"
#include "vw_node.h"
CO_EMCY_TBL *V_EMCYTBL_P; int H_ACTIVE0; _Bool H_WAS_ACTIVE;
#include "emcy.h"
uint8_t H_ERR, H_SILENT; _Bool H_USRNULL; CO_EMCY_USR H_USR;
void harness(void)
{
    vw_node_init();
    V_EMCYTBL_P = V_EMCYTBL; V_NODE.Emcy.Root = V_EMCYTBL;
    CO_EMCY_USR *usr = H_USRNULL ? (CO_EMCY_USR *)0 : &H_USR;
    H_ACTIVE0 = spec_emcy_active_n(); H_WAS_ACTIVE = EMCY_ACTIVE(EMCY_CLIP(H_ERR));
    uint32_t tx0 = G_TX_N;
#if VW_OP == 0
    COEmcySet(&V_NODE.Emcy, H_ERR, usr);
    if (G_TX_N != tx0 && usr != 0) { __CPROVER_assert(0, "REACH:a"); }
    if (G_TX_N == tx0 && G_HISTADD_N != 0) { __CPROVER_assert(0, "REACH:b"); }
#elif VW_OP == 1
    COEmcyClr(&V_NODE.Emcy, H_ERR);
    if (G_TX_N != tx0 && G_DVB_VAL == 0) { __CPROVER_assert(0, "REACH:a"); }
    if (G_TX_N != tx0 && G_DVB_VAL == 0x11) { __CPROVER_assert(0, "REACH:b"); }
#elif VW_OP == 2
    (void)COEmcyGet(&V_NODE.Emcy, H_ERR);
#elif VW_OP == 3
    int16_t n = COEmcyCnt(&V_NODE.Emcy);
    if (n == CO_EMCY_N) { __CPROVER_assert(0, "REACH:a"); }
#else
#ifdef VW_SILENT_ONLY
    __CPROVER_assume(H_SILENT != 0);       /* the NMT reset path (C20) */
#endif
    COEmcyReset(&V_NODE.Emcy, H_SILENT);
#ifdef VW_SILENT_ONLY
    if (H_ACTIVE0 == 5) { __CPROVER_assert(0, "REACH:a"); }
#else
    if (G_TX_N - tx0 == 5) { __CPROVER_assert(0, "REACH:a"); }
#endif
#endif
    __CPROVER_assert(0, "REACH:post");
}
