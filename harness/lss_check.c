/* COLssCheck (all 21 services inline) against lss.h; dictionary in D-lay form (<= VW_DN entries,
 * symbolic keys/types/values: the identity object 1018h may be present, partial or absent). */
#define VW_T_MAX VW_T_I32
#include "vw_defs.h"
#include "vw_node.h"
#ifdef VW_DLAY
#include "vw_dict.h"
#else
#include "dictv.h"
#endif
#include "lss.h"
_Bool G_ID_OK[5]; uint32_t G_ID_VAL[5]; uint8_t G_SEL, G_REM;
#ifdef VW_DLAY
void COTPdoTrigObj(CO_TPDO *tpdo, struct CO_OBJ_T *obj) { G_TRIG_N++; }
#endif
static uint8_t sel_next(uint8_t sel, CO_IF_FRM *f, uint8_t mode)
{
    uint8_t c = f->Data[0]; uint32_t a = H_ARG(*f);
    if (c >= 64 && c <= 67 && mode != CO_LSS_WAIT) return sel;   /* selective frames are ignored outside waiting state */
    if (c == 64) return (G_ID_OK[1] && a == G_ID_VAL[1]) ? 1 : 0;
    if (c == 65) return sel != 1 ? 0 : (G_ID_OK[2] && a == G_ID_VAL[2]) ? 2 : 1;   /* in-order mismatch: may be retried */
    if (c == 66) return sel != 2 ? 0 : (G_ID_OK[3] && a == G_ID_VAL[3]) ? 3 : 2;
    if (c == 67) return sel == 3 ? 3 : 0;   /* lenient: the three leading frames stay valid for a repeated serial frame */
    if (c >= 70 && c <= 75) return 0;      /* a frame of the identify dialogue restarts the selection */
    if (c == 21 && mode == CO_LSS_CONF) return 0;   /* activate bit timing ends any dialogue */
    return sel;
}
static _Bool rem_ok(uint8_t c, uint32_t a)
{
    return c == 70 ? (G_ID_OK[1] && a == G_ID_VAL[1]) : c == 71 ? (G_ID_OK[2] && a == G_ID_VAL[2]) :
           c == 72 ? (G_ID_OK[3] && a <= G_ID_VAL[3]) : c == 73 ? (G_ID_OK[3] && a >= G_ID_VAL[3]) :
           c == 74 ? (G_ID_OK[4] && a <= G_ID_VAL[4]) : (G_ID_OK[4] && a >= G_ID_VAL[4]);
}
static uint8_t rem_next(uint8_t rem, CO_IF_FRM *f, uint8_t mode)
{
    uint8_t c = f->Data[0]; uint32_t a = H_ARG(*f);
    if (c == 70) return rem_ok(70, a) ? 1 : 0;
    if (c >= 71 && c <= 74) return rem != c - 70 ? 0 : rem_ok(c, a) ? (uint8_t)(c - 69) : rem;   /* in-order miss: may be retried */
    if (c == 75) return rem == 5 ? 5 : 0;   /* lenient: the five leading frames stay valid for a repeated last frame */
    if (c >= 64 && c <= 67 && mode == CO_LSS_WAIT) return 0;   /* a processed selective frame restarts identification */
    if (c == 21 && mode == CO_LSS_CONF) return 0;              /* activate bit timing ends any dialogue */
    return rem;
}
void harness(void)
{
    vw_node_init();
#ifndef VW_DLAY
    /* D-abs: the identity is what the typed read of 1018h:k delivers (dictv.h) */
    for (int k = 1; k <= 4; k++) {
        G_DV_KEY[k - 1] = CO_DEV(0x1018, k);
        G_ID_OK[k] = G_DV_OK[k - 1]; G_ID_VAL[k] = G_DV_OK[k - 1] ? G_DV_VAL[k - 1] : 0;
    }
#else
    vw_dict_init();
    /* D-lay: identity as seen through the concrete dictionary (specification lookup) */
    for (int k = 1; k <= 4; k++) {
        int i = vw_dict_lookup(CO_DEV(0x1018, k));
        G_ID_OK[k] = i >= 0 && H_TYPE[i] == VW_T_I32 && (CO_IS_DIRECT(V_DICT[i].Key) || H_REF[i]);
        G_ID_VAL[k] = G_ID_OK[k] ? (uint32_t)((CO_IS_DIRECT(V_DICT[i].Key) ? (uint32_t)(size_t)V_DICT[i].Data : VW_CELL_VAL(i)) +
                                               (CO_IS_NODEID(V_DICT[i].Key) ? V_NODE.NodeId : 0)) : 0;
    }
#endif
    CO_IF_FRM f0 = V_FRM; uint8_t m0 = V_NODE.Lss.Mode;
    int16_t r = COLssCheck(&V_NODE.Lss, &V_FRM);
    /* specification advances the history; the representation invariant must be re-established */
    if (f0.Identifier == 0x7E5 && (m0 == CO_LSS_WAIT || m0 == CO_LSS_CONF)) {
        G_SEL = sel_next(G_SEL, &f0, m0);
        G_REM = rem_next(G_REM, &f0, m0);
    }
    __CPROVER_assert(WF_LSS(), "invariant WF_LSS preserved: Step claims progress only if the history made it");
    if (r == 1 && f0.Data[0] == 67) { __CPROVER_assert(0, "REACH:selected"); }
    if (r == 1 && f0.Data[0] == 75) { __CPROVER_assert(0, "REACH:identified"); }
    if (r == 1 && f0.Data[0] == 23) { __CPROVER_assert(0, "REACH:stored"); }
    if (r == 1 && f0.Data[0] == 90 && V_FRM.Data[1] == 0x12) { __CPROVER_assert(0, "REACH:inquired"); }
    if (r == 0) { __CPROVER_assert(0, "REACH:notlss"); }
    __CPROVER_assert(0, "REACH:post");
}
