#include "vw_defs.h"
#include "dict.h"
uint32_t H_KEY;
void harness(void)
{
    vw_dict_alloc();
    CO_OBJ *r = CODictFind(&V_NODE.Dict, H_KEY);
    __CPROVER_assert(0, "REACH:post");
    if (r != NULL) { __CPROVER_assert(0, "REACH:found"); }
    else if (DEV(H_KEY) != 0 && G_DNUM > 3) { __CPROVER_assert(0, "REACH:notfound"); }
}
