#include "dict.h"
uint32_t G_K;
void harness(void)
{
    CO_DICT *cod; uint32_t key;
    CO_OBJ *r = CODictFind(cod, key);
    __CPROVER_assert(0, "REACH:post");
    if (r != NULL) { __CPROVER_assert(0, "REACH:found"); }
    else if (DEV(key) != 0) { __CPROVER_assert(0, "REACH:notfound"); }
}
