/* object access layer (co_obj.c) against obj.h; type functions through function-pointer contracts.
 * -DVW_FN=<function> -DVW_KIND=0 (GetSize) 1 (Rd/WrValue) 2 (Rd/WrBuf*) 3 (Reset) */
#include "vw_defs.h"
#include "obj.h"
#include <stdlib.h>
CO_OBJ_TYPE V_TYPE;                 /* an arbitrary type table: members NULL or any function obeying its contract */
_Bool H_NULLOBJ, H_NULLTYPE, H_NULLNODE, H_NULLBUF;
uint32_t H_PARA; uint8_t H_WIDTH;
void harness(void)
{
    V_O.Type = H_NULLTYPE ? (const CO_OBJ_TYPE *)0 : &V_TYPE;
    CO_OBJ *obj = H_NULLOBJ ? (CO_OBJ *)0 : &V_O;
    CO_NODE *node = H_NULLNODE ? (CO_NODE *)0 : &V_NODE;
    H_BUF = H_NULLBUF ? (uint8_t *)0 : malloc(H_BUFSZ);
    /* arm the expectation: the type function must receive exactly these arguments */
    G_EXP_ON = 1; G_EXP_BUF = H_BUF; G_EXP_PARA = 0;
    __CPROVER_assume(H_SIZE <= H_BUFSZ && H_WIDTH <= H_BUFSZ);
#if VW_KIND == 0
    (void)VW_FN(obj, node, H_SIZE);
#elif VW_KIND == 1
    G_EXP_SIZE = H_WIDTH;
    (void)VW_FN(obj, node, H_BUF, H_WIDTH);
#elif VW_KIND == 2
    G_EXP_SIZE = H_SIZE;
    (void)VW_FN(obj, node, H_BUF, H_SIZE);
#else
    G_EXP_PARA = H_PARA;
    (void)VW_FN(obj, node, H_PARA);
#endif
    __CPROVER_assert(0, "REACH:post");
    if (G_READ_N + G_WRITE_N + G_RESET_N > 0) { __CPROVER_assert(0, "REACH:called"); }
}
