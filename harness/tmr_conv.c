/* time-to-tick conversion (co_tmr.c COTmrGetTicks / COTmrGetMinTime) - property C07, last clause: "time-to-tick
 * conversion is monotonic and exact whenever the time is a whole number of ticks".  EXPLICIT form, loop-free, full
 * domain: any frequency (32 bit), any time (16 bit), both units the stack uses (1 ms = 1000, 100 us = 10000).
 * Specification in 64-bit arithmetic: P = time * freq; the time is a whole number of ticks iff P % unit == 0. */
#include "vw_defs.h"
#include "vw_node.h"
uint16_t H_T1, H_T2; _Bool H_U;
void harness(void)
{
    vw_node_init();
    uint32_t unit = H_U ? 10000u : 1000u, freq = V_NODE.Tmr.Freq;
    __CPROVER_assume(H_T1 <= H_T2);
    uint32_t k1 = COTmrGetTicks(&V_NODE.Tmr, H_T1, unit), k2 = COTmrGetTicks(&V_NODE.Tmr, H_T2, unit);
    uint64_t p2 = (uint64_t)H_T2 * freq;
    _Bool fits = p2 / unit <= 0xFFFFFFFFull;                 /* the tick count of the longer time is representable */
    if (freq == 0) { __CPROVER_assert(k1 == 0 && k2 == 0, "no timer frequency: 0 ticks"); }
    __CPROVER_assert(fits ==> k1 <= k2, "tick conversion is monotonic");
    __CPROVER_assert((fits && p2 % unit == 0) ==> k2 == (uint32_t)(p2 / unit), "tick conversion is exact whenever the time is a whole number of ticks");
    uint16_t m = COTmrGetMinTime(&V_NODE.Tmr, unit);
    __CPROVER_assert(freq == 0 ? m == 0 : (m >= 1 && (uint64_t)m * freq >= unit), "the smallest resolvable time is at least one tick long");
    if (freq != 0 && freq < unit && unit % freq != 0 && p2 % unit == 0 && H_T2 != 0) { __CPROVER_assert(0, "REACH:a"); }
    if (freq > unit && freq % unit != 0 && p2 % unit == 0 && H_T2 != 0) { __CPROVER_assert(0, "REACH:b"); }
    __CPROVER_assert(0, "REACH:post");
}
