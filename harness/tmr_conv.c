/* time-to-tick conversion (co_tmr.c COTmrGetTicks) - property C07, last clause: "time-to-tick conversion is monotonic and
 * exact whenever the time is a whole number of ticks".  EXPLICIT form, BOUNDED in the frequency: a symbolic 32-bit frequency
 * makes cbmc's propositional reduction of the divisions / multiplications run for hours (standalone experiment: > 5 min in
 * "Running propositional reduction" for the exactness clause alone, MiniSat and CaDiCaL), so the clause is decided for a
 * LIST of (frequency, unit) pairs (-DVW_FREQ, -DVW_UNIT, one group each) - frequencies dividing the unit, multiples of it,
 * and neither (the case that was wrong on the pinned tree) - each with EVERY pair of 16-bit times t1 <= t2.  With a constant frequency the conversion is
 * linear in the time and SAT decides it at once.  Specification in 32-bit arithmetic: m = freq / unit, r = freq % unit,
 * exact count = time*m + time*r/unit (time*r < 2^30), whole number of ticks iff (time*r) % unit == 0. */
#include "vw_defs.h"
#include "vw_node.h"
uint16_t H_T1, H_T2;
void harness(void)
{
    vw_node_init();
    __CPROVER_assume(H_T1 <= H_T2);
    uint32_t unit = VW_UNIT, freq = VW_FREQ, m = freq / unit, r = freq % unit;
    V_NODE.Tmr.Freq = freq;
    uint32_t k1 = COTmrGetTicks(&V_NODE.Tmr, H_T1, unit), k2 = COTmrGetTicks(&V_NODE.Tmr, H_T2, unit);
    uint32_t frac = (uint32_t)H_T2 * r;
    __CPROVER_assert(k1 <= k2, "tick conversion is monotonic");
    __CPROVER_assert(frac % unit == 0 ==> k2 == (uint32_t)H_T2 * m + frac / unit, "tick conversion is exact whenever the time is a whole number of ticks");
    V_NODE.Tmr.Freq = 0;
    __CPROVER_assert(COTmrGetTicks(&V_NODE.Tmr, H_T2, unit) == 0, "no timer frequency: 0 ticks");
    if (frac % unit == 0 && H_T2 > 100) { __CPROVER_assert(0, "REACH:a"); }
    if (H_T1 == H_T2) { __CPROVER_assert(0, "REACH:b"); }
    __CPROVER_assert(0, "REACH:post");
}
