/* Timer manager set-up (co_tmr.c): COTmrInit (run by CONodeInit; COTmrReset inlined) and COTmrGetMinTime - properties C07 / C20
 * (a fresh node starts with an empty, complete pool) and C16 (the smallest period the SYNC producer accepts is one the tick
 * conversion resolves).  EXPLICIT form, -include'd in front of co_tmr.c.
 * -DVW_OP=0 COTmrInit over a pool memory of VW_TMR_N slots with ARBITRARY content (BOUNDED in the pool size);
 * -DVW_OP=1 COTmrGetMinTime against COTmrGetTicks for the frequency VW_FREQ and unit VW_UNIT (BOUNDED: listed pairs). */
#include "vw_defs.h"
#include "vw_node.h"
#ifndef VW_TMR_N
#define VW_TMR_N 4
#endif
#define N VW_TMR_N
CO_TMR_MEM V_TMEM[N];
#define TM (V_NODE.Tmr)
uint32_t N_LOCK, N_UNLOCK, H_FREQ; int8_t LOCKED; uint16_t H_T;
void COTmrLock(void) { __CPROVER_assert(LOCKED == 0, "lock is not taken twice"); LOCKED = 1; N_LOCK++; }
void COTmrUnlock(void) { __CPROVER_assert(LOCKED == 1, "unlock only after lock"); LOCKED = 0; N_UNLOCK++; }
void COIfTimerReload(struct CO_IF_T *cif, uint32_t reload) { __CPROVER_assert(0, "set-up does not touch the hardware timer"); }
uint32_t COIfTimerDelay(struct CO_IF_T *cif) { __CPROVER_assert(0, "set-up does not touch the hardware timer"); return 0; }
void COIfTimerStop(struct CO_IF_T *cif) { __CPROVER_assert(0, "set-up does not touch the hardware timer"); }
void COIfTimerStart(struct CO_IF_T *cif) { __CPROVER_assert(0, "set-up does not touch the hardware timer"); }
uint8_t COIfTimerUpdate(struct CO_IF_T *cif) { __CPROVER_assert(0, "set-up does not touch the hardware timer"); return 0; }
void CONodeFatalError(void) { __CPROVER_assert(0, "CONodeFatalError must not be reached"); }
void harness(void)
{
    vw_node_init();
    LOCKED = 0; N_LOCK = N_UNLOCK = 0;
#if VW_OP == 0
    /* the pool memory and the manager hold anything (a re-initialised node: stale lists, stale pointers) */
    for (int k = 0; k < N; k++) { V_TMEM[k].Act.Next = (k & 1) ? &V_TMEM[0].Act : 0; V_TMEM[k].Tmr.Next = (k & 1) ? 0 : &V_TMEM[N - 1].Tmr; V_TMEM[k].Tmr.Action = &V_TMEM[k].Act; V_TMEM[k].Tmr.ActionEnd = 0; V_TMEM[k].Act.Para = 0; }
    TM.Use = &V_TMEM[0].Tmr; TM.Elapsed = &V_TMEM[N - 1].Tmr; TM.Free = 0; TM.Acts = 0;
    COTmrInit(&TM, &V_NODE, V_TMEM, N, H_FREQ);
    __CPROVER_assert(TM.Node == &V_NODE && TM.Max == N && TM.Freq == H_FREQ && TM.APool == &V_TMEM[0].Act && TM.TPool == &V_TMEM[0].Tmr, "init: the manager is bound to the node, the pool memory and the tick frequency");
    __CPROVER_assert(TM.Use == 0 && TM.Elapsed == 0, "init: nothing is pending, nothing has elapsed");
    int ecnt[N], acnt[N]; _Bool ok = 1; CO_TMR_TIME *t = TM.Free; CO_TMR_ACTION *p = TM.Acts; int i, k;
    for (k = 0; k < N; k++) { ecnt[k] = 0; acnt[k] = 0; }
    for (i = 0; i < N + 1 && t != 0; i++) { int f = -1; for (k = 0; k < N; k++) { if (t == &V_TMEM[k].Tmr) { f = k; } } if (f < 0 || i == N) { ok = 0; break; } ecnt[f]++; if (t->Action != 0 || t->ActionEnd != 0) { ok = 0; } t = t->Next; }
    for (i = 0; i < N + 1 && p != 0; i++) { int f = -1; for (k = 0; k < N; k++) { if (p == &V_TMEM[k].Act) { f = k; } } if (f < 0 || i == N) { ok = 0; break; } acnt[f]++; if (p->Func != 0) { ok = 0; } p = p->Next; }
    for (k = 0; k < N; k++) { if (ecnt[k] != 1 || acnt[k] != 1) { ok = 0; } }
    __CPROVER_assert(ok, "init: every one of the configured slots is free exactly once (free events + free actions == capacity), no stale action or callback");
    for (k = 0; k < N; k++) { for (int j = 0; j < k; j++) { __CPROVER_assert(V_TMEM[k].Act.Id != V_TMEM[j].Act.Id, "init: action identifiers are pairwise distinct (an identifier names one action)"); } __CPROVER_assert(V_TMEM[k].Act.Id < N, "init: action identifiers lie below the capacity"); }
    __CPROVER_assert(N_LOCK == 1 && N_UNLOCK == 1 && LOCKED == 0, "init: the pool is rebuilt inside one critical section");
    if (H_FREQ == 0) { __CPROVER_assert(0, "REACH:a"); }
    if (H_FREQ == 1000) { __CPROVER_assert(0, "REACH:b"); }
#else
    TM.Freq = VW_FREQ;
    uint16_t m = COTmrGetMinTime(&TM, VW_UNIT);
    __CPROVER_assert(m >= 1, "a running timer has a non-zero minimal time");
    __CPROVER_assert(COTmrGetTicks(&TM, m, VW_UNIT) >= 1, "the minimal time is at least one tick: a period of that length can be produced");
    __CPROVER_assert((H_T >= m) ==> COTmrGetTicks(&TM, H_T, VW_UNIT) >= 1, "every time from the minimal time on converts to at least one tick");
    if (H_T >= m) { __CPROVER_assert(0, "REACH:a"); }
#if VW_FREQ < VW_UNIT
    if (m > 1) { __CPROVER_assert(0, "REACH:b"); }
#endif
#endif
    __CPROVER_assert(0, "REACH:post");
}
