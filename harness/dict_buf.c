/* CODictRdBuffer / CODictWrBuffer against dict.h (dfcc); CODictFind and COObjRd/WrBufStart are
 * replaced by their contracts.  -DVW_WRITE=0|1 */
#include "vw_defs.h"
#include "dict.h"
uint32_t H_KEY, H_LEN; _Bool H_NULLBUF;
void harness(void)
{
    vw_dict_alloc();
    H_BUF = H_NULLBUF ? (uint8_t *)0 : malloc(H_BUFSZ);
    __CPROVER_assume(H_LEN <= H_BUFSZ);
    G_EXP_ON = 1; G_EXP_SIZE = H_LEN; G_EXP_BUF = H_BUF; G_EXP_PARA = 0;
    uint32_t c0 = G_READ_N + G_WRITE_N;
#if VW_WRITE == 0
    CO_ERR e = CODictRdBuffer(&V_NODE.Dict, H_KEY, H_BUF, H_LEN);
#else
    CO_ERR e = CODictWrBuffer(&V_NODE.Dict, H_KEY, H_BUF, H_LEN);
#endif
    if (G_READ_N + G_WRITE_N != c0 && H_LEN > 300) { __CPROVER_assert(0, "REACH:big"); }
    if (e == CO_ERR_OBJ_NOT_FOUND) { __CPROVER_assert(0, "REACH:notfound"); }
    __CPROVER_assert(0, "REACH:post");
}
