/* co_nmt.c / co_core.c NMT functions against nmt.h.  -DVW_OP=0 SetMode 1 Check 2 Bootup 3 Init 4 NodeStart */
#include "vw_defs.h"
#include "vw_node.h"
#include "nmt.h"
CO_MODE H_MODE;
void harness(void)
{
    vw_node_init();
    uint32_t tx0 = G_TX_N; CO_MODE m0 = V_NODE.Nmt.Mode;
#if VW_OP == 0
    CONmtSetMode(&V_NODE.Nmt, H_MODE);
    if (H_MODE == CO_OPERATIONAL && m0 != CO_OPERATIONAL) { __CPROVER_assert(0, "REACH:pdoinit"); }
#elif VW_OP == 1
    int16_t r = CONmtCheck(&V_NODE.Nmt, &V_FRM);
    if (r == 0 && V_NODE.Nmt.Mode == CO_STOP && m0 == CO_OPERATIONAL) { __CPROVER_assert(0, "REACH:stopped"); }
    if (G_TX_N != tx0) { __CPROVER_assert(0, "REACH:bootup"); }
    if (r == -1) { __CPROVER_assert(0, "REACH:notnmt"); }
#elif VW_OP == 2
    CONmtBootup(&V_NODE.Nmt);
    if (G_TX_N != tx0) { __CPROVER_assert(0, "REACH:bootup"); }
#elif VW_OP == 3
    CONmtInit(&V_NODE.Nmt, &V_NODE);
#else
    CONodeStart(&V_NODE);
    if (G_TX_N != tx0) { __CPROVER_assert(0, "REACH:bootup"); }
#endif
    __CPROVER_assert(0, "REACH:post");
}
