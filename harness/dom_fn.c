/* leaf proofs of co_domain.c; -include'd in front of the TU. -DVW_OP=0..4 (Size,Read,Write,Init,Reset) */
#include "vw_defs.h"
#include "domain.h"
#include <stdlib.h>
_Bool H_NULLDATA;
uint32_t H_DOMSZ;
void harness(void)
{
    /* pointer topology by assignment; sizes symbolic (no bound other than the address space) */
    V_O.Data = H_NULLDATA ? (CO_DATA)0 : (CO_DATA)&V_DOM;
    __CPROVER_assume(H_DOMSZ == V_DOM.Size);
    V_DOM.Start = malloc(H_DOMSZ);
    H_BUF = malloc(H_BUFSZ);
    __CPROVER_assume(V_DOM.Start != NULL && H_BUF != NULL);
#if VW_OP == 0
    (void)COTDomainSize(&V_O, &V_NODE, H_SIZE);
#elif VW_OP == 1
    /* explicit form: assume requires, snapshot old(), call, assert ensures + frame witness */
    __CPROVER_assume(DOM_RW_PRE(H_SIZE));
    uint32_t o0 = V_DOM.Offset; uint32_t sz0 = V_DOM.Size; uint8_t *st0 = V_DOM.Start; CO_OBJ ob0 = V_O;
    H_BK0 = G_K < H_BUFSZ ? H_BUF[G_K] : 0;
    H_DK0 = G_K < V_DOM.Size ? V_DOM.Start[G_K] : 0;
    CO_ERR r = COTDomainRead(&V_O, &V_NODE, H_BUF, H_SIZE);
    __CPROVER_assert(DOM_POST_COMMON(r, H_SIZE, o0), "ensures: NONE and Offset advanced by min(size, Size-Offset)");
    __CPROVER_assert(DOM_READ_POST(H_SIZE, o0, H_BK0), "ensures: moved bytes equal the object's bytes, rest of buffer untouched");
    __CPROVER_assert(V_DOM.Size == sz0 && V_DOM.Start == st0 && V_O.Key == ob0.Key && V_O.Type == ob0.Type && V_O.Data == ob0.Data &&
                     (G_K < V_DOM.Size ==> V_DOM.Start[G_K] == H_DK0), "frame: object entry, size and content unchanged by a read");
    if (V_DOM.Offset > o0 + 3) { __CPROVER_assert(0, "REACH:moved"); }
    if (V_DOM.Offset == V_DOM.Size && H_SIZE > 2 && o0 + H_SIZE > V_DOM.Size + 1 && o0 < V_DOM.Size) { __CPROVER_assert(0, "REACH:clipped"); }
#elif VW_OP == 2
    __CPROVER_assume(DOM_RW_PRE(H_SIZE));
    uint32_t o0 = V_DOM.Offset; uint32_t sz0 = V_DOM.Size; uint8_t *st0 = V_DOM.Start; CO_OBJ ob0 = V_O;
    H_BK0 = G_K < H_BUFSZ ? H_BUF[G_K] : 0;
    H_DK0 = G_K < V_DOM.Size ? V_DOM.Start[G_K] : 0;
    CO_ERR r = COTDomainWrite(&V_O, &V_NODE, H_BUF, H_SIZE);
    __CPROVER_assert(DOM_POST_COMMON(r, H_SIZE, o0), "ensures: NONE and Offset advanced by min(size, Size-Offset)");
    __CPROVER_assert(DOM_WRITE_POST(H_SIZE, o0, H_DK0), "ensures: written range equals caller bytes, every other domain byte untouched");
    __CPROVER_assert(V_DOM.Size == sz0 && V_DOM.Start == st0 && V_O.Key == ob0.Key && V_O.Type == ob0.Type && V_O.Data == ob0.Data &&
                     (G_K < H_BUFSZ ==> H_BUF[G_K] == H_BK0), "frame: object entry, size and caller buffer unchanged by a write");
    if (V_DOM.Offset > o0 + 3) { __CPROVER_assert(0, "REACH:moved"); }
    if (V_DOM.Offset == V_DOM.Size && H_SIZE > 2 && o0 + H_SIZE > V_DOM.Size + 1 && o0 < V_DOM.Size) { __CPROVER_assert(0, "REACH:clipped"); }
#elif VW_OP == 3
    (void)COTDomainInit(&V_O, &V_NODE);
#else
    (void)COTDomainReset(&V_O, &V_NODE, H_SIZE);
#endif
    __CPROVER_assert(0, "REACH:post");
}
