/* PDO (re)activation and SYNC table maintenance (co_pdo.c COTPdoReset / CORPdoReset, co_sync.c COSyncAdd /
 * COSyncRemove) - properties C12, C13, C14; EXPLICIT form over stubs of dictionary reads and the timer manager.
 * The point of these groups is the FRAME: re-activating PDO #n changes PDO #n and its own SYNC slots only - every
 * other PDO, the SYNC tables of the other direction and the buffered synchronous RPDO frames stay as they are.
 * -DVW_OP=0 COSyncAdd 1 COSyncRemove 2 COTPdoReset 3 CORPdoReset 4 COTPdoInit 5 CORPdoInit. */
#include "vw_defs.h"
#include "vw_node.h"
#include "nmt.h"
CO_OBJ V_POBJ[4];
uint32_t N_TDEL, N_TCRE; int16_t D_ID[2], H_TID; uint32_t C_START, C_CYCLE; CO_TMR_FUNC C_FUNC; void *C_PARA;
uint16_t A_INH, A_EVT; uint32_t H_TK_INH, H_TK_EVT;
int16_t COTmrDelete(CO_TMR *tmr, int16_t actId) { __CPROVER_assert(tmr == &V_NODE.Tmr && actId >= 0, "COTmrDelete requires: a valid id"); if (N_TDEL < 2) { D_ID[N_TDEL] = actId; } N_TDEL++; int16_t r; return r; }
int16_t COTmrCreate(CO_TMR *tmr, uint32_t s, uint32_t c, CO_TMR_FUNC f, void *p) { __CPROVER_assert(tmr == &V_NODE.Tmr, "COTmrCreate requires"); N_TCRE++; C_START = s; C_CYCLE = c; C_FUNC = f; C_PARA = p; __CPROVER_assume(H_TID >= -1); return H_TID; }
uint32_t COTmrGetTicks(CO_TMR *tmr, uint16_t time, uint32_t unit) { if (unit == 10000) { A_INH = time; return time == 0 ? 0 : H_TK_INH; } __CPROVER_assert(unit == 1000, "unit"); A_EVT = time; return time == 0 ? 0 : H_TK_EVT; }
uint8_t H_TYPE, H_MAPN; uint16_t H_INHT, H_EVTT; uint32_t H_ID, H_MAPENT[9]; _Bool H_TYPE_OK, H_ID_OK, H_INH_OK, H_EVT_OK, H_MAPN_OK, H_MAPENT_OK[9], H_COMM0_OK;
#define ISMAP(key) ((((key) >> 16) & 0x0200) != 0)      /* 16xxh / 1Axxh mapping records vs 14xxh / 18xxh communication records */
CO_ERR CODictRdByte(CO_DICT *cod, uint32_t key, uint8_t *val) { __CPROVER_assert(cod == &V_NODE.Dict && val != 0, "CODictRdByte requires"); uint8_t sub = (uint8_t)(key >> 8);
    if (ISMAP(key)) { if (sub == 0 && H_MAPN_OK) { *val = H_MAPN; return CO_ERR_NONE; } } else if (sub == 2 && H_TYPE_OK) { *val = H_TYPE; return CO_ERR_NONE; } else if (sub == 0 && H_COMM0_OK) { *val = 5; return CO_ERR_NONE; } return CO_ERR_OBJ_NOT_FOUND; }
CO_ERR CODictRdWord(CO_DICT *cod, uint32_t key, uint16_t *val) { __CPROVER_assert(cod == &V_NODE.Dict && val != 0, "CODictRdWord requires"); uint8_t sub = (uint8_t)(key >> 8);
    if (sub == 3 && H_INH_OK) { *val = H_INHT; return CO_ERR_NONE; } if (sub == 5 && H_EVT_OK) { *val = H_EVTT; return CO_ERR_NONE; } return CO_ERR_OBJ_NOT_FOUND; }
CO_ERR CODictRdLong(CO_DICT *cod, uint32_t key, uint32_t *val) { __CPROVER_assert(cod == &V_NODE.Dict && val != 0, "CODictRdLong requires"); uint8_t sub = (uint8_t)(key >> 8);
    if (ISMAP(key)) { if (sub >= 1 && sub <= 8 && H_MAPENT_OK[sub]) { *val = H_MAPENT[sub]; return CO_ERR_NONE; } } else if (sub == 1 && H_ID_OK) { *val = H_ID; return CO_ERR_NONE; } return CO_ERR_OBJ_NOT_FOUND; }
CO_OBJ *CODictFind(CO_DICT *cod, uint32_t key) { CO_OBJ *r = 0; for (int i = 0; i < 4; i++) { if (DEV(key) != 0 && DEV(V_POBJ[i].Key) == DEV(key)) { r = &V_POBJ[i]; } } return r; }
uint32_t COObjGetSize(struct CO_OBJ_T *obj, CO_NODE *node, uint32_t width) { uint32_t r; return r; }
CO_ERR COObjRdValue(struct CO_OBJ_T *obj, struct CO_NODE_T *node, void *value, uint8_t width) { CO_ERR e; return e; }
CO_ERR COObjWrValue(struct CO_OBJ_T *obj, struct CO_NODE_T *node, void *value, uint8_t width) { CO_ERR e; return e; }
int16_t COIfCanSend(struct CO_IF_T *cif, CO_IF_FRM *frm) { __CPROVER_assert(0, "nothing is transmitted by a PDO (re)activation"); return 0; }
void COPdoTransmit(CO_IF_FRM *frm) { }
int16_t COPdoReceive(CO_IF_FRM *frm) { return 0; }
void COPdoSyncUpdate(CO_RPDO *pdo) { }
void CORpdoWriteData(CO_IF_FRM *frm, uint8_t pos, uint8_t size, CO_OBJ *obj) { }
void COTpdoReadData(CO_IF_FRM *frm, uint8_t pos, uint8_t size, CO_OBJ *obj) { }
uint8_t H_PN, G_T, G_R, H_MSG, H_TXT; uint8_t H_LNK[CO_TPDO_N * 8]; uint32_t G_L, G_M; _Bool H_ST[CO_TPDO_N], H_SR[CO_RPDO_N];
#define S (V_NODE.Sync)
#define P (V_NODE.TPdo[H_PN])
#define R (V_NODE.RPdo[H_PN])
#define TP_SAME(g) (V_NODE.TPdo[g].Identifier == t0.Identifier && V_NODE.TPdo[g].Flags == t0.Flags && V_NODE.TPdo[g].EvTmr == t0.EvTmr && V_NODE.TPdo[g].InTmr == t0.InTmr && V_NODE.TPdo[g].ObjNum == t0.ObjNum && V_NODE.TPdo[g].Event == t0.Event && V_NODE.TPdo[g].Inhibit == t0.Inhibit && V_NODE.TPdo[g].Map[G_T & 7] == t0.Map[G_T & 7] && V_NODE.TPdo[g].Size[G_R & 7] == t0.Size[G_R & 7])
#define RP_SAME(g) (V_NODE.RPdo[g].Identifier == r0.Identifier && V_NODE.RPdo[g].Flag == r0.Flag && V_NODE.RPdo[g].ObjNum == r0.ObjNum && V_NODE.RPdo[g].Map[G_T & 7] == r0.Map[G_T & 7] && V_NODE.RPdo[g].Size[G_R & 7] == r0.Size[G_R & 7])
#define ST_SAME(g) (S.TPdo[g] == s0.TPdo[g] && S.TNum[g] == s0.TNum[g] && S.TSync[g] == s0.TSync[g])
#define SR_SAME(g) (S.RPdo[g] == s0.RPdo[g])
#define RF_SAME(g) (S.RFrm[g].Identifier == s0.RFrm[g].Identifier && S.RFrm[g].DLC == s0.RFrm[g].DLC && S.RFrm[g].Data[G_T & 7] == s0.RFrm[g].Data[G_T & 7])
void harness(void)
{
    vw_node_init();
    __CPROVER_assume(H_PN < CO_TPDO_N && H_PN < CO_RPDO_N && G_T < CO_TPDO_N && G_R < CO_RPDO_N);
    S.Node = &V_NODE;
    for (int k = 0; k < CO_TPDO_N; k++) {      /* WF_SYNC: a PDO is in the SYNC table iff its 'synchronous' flag is set */
        V_NODE.TPdo[k].Node = &V_NODE; S.TPdo[k] = H_ST[k] ? &V_NODE.TPdo[k] : (CO_TPDO *)0;
        __CPROVER_assume(H_ST[k] == ((V_NODE.TPdo[k].Flags & CO_TPDO_FLG_S__) != 0) && V_NODE.TPdo[k].EvTmr >= -1 && V_NODE.TPdo[k].InTmr >= -1 && V_NODE.TPdo[k].ObjNum <= 8);
        for (int on = 0; on < 8; on++) { V_NODE.TPdo[k].Map[on] = 0; }
    }
    for (int k = 0; k < CO_RPDO_N; k++) {
        V_NODE.RPdo[k].Node = &V_NODE; S.RPdo[k] = H_SR[k] ? &V_NODE.RPdo[k] : (CO_RPDO *)0;
        __CPROVER_assume(H_SR[k] == ((V_NODE.RPdo[k].Flag & CO_RPDO_FLG_S_) != 0) && V_NODE.RPdo[k].ObjNum <= 8);
        for (int on = 0; on < 8; on++) { V_NODE.RPdo[k].Map[on] = 0; }
    }
#if VW_OP == 2
    /* object-to-TPDO link table: ANY content (free slots, links of this and of other TPDOs to any object); the links of the
     * OTHER TPDOs occupy at most 8 slots per TPDO (representation invariant, re-established below for the TPDO in hand) */
    uint32_t others = 0;
    for (int n = 0; n < CO_TPDO_N * 8; n++) { V_NODE.TMap[n].Obj = (H_LNK[n] & 7) == 0 ? (CO_OBJ *)0 : &V_POBJ[H_LNK[n] & 3]; if (V_NODE.TMap[n].Obj != 0 && V_NODE.TMap[n].Num != H_PN) { others++; } }
    __CPROVER_assume(others <= 8u * (CO_TPDO_N - 1) && G_L < CO_TPDO_N * 8u);
    CO_TPDO_LINK l0 = V_NODE.TMap[G_L];
#else
    for (int n = 0; n < CO_TPDO_N * 8; n++) { V_NODE.TMap[n].Obj = 0; }
#endif
    CO_SYNC s0 = S; CO_TPDO t0 = V_NODE.TPdo[G_T]; CO_RPDO r0 = V_NODE.RPdo[G_R]; CO_TPDO p0 = P; CO_RPDO q0 = R;
    N_TDEL = N_TCRE = 0; V_NODE.Error = CO_ERR_NONE;
#if VW_OP == 0 || VW_OP == 1
    __CPROVER_assume(H_MSG == CO_SYNC_FLG_TX || H_MSG == CO_SYNC_FLG_RX);
#if VW_OP == 0
    COSyncAdd(&S, H_PN, H_MSG, H_TXT);
    if (H_MSG == CO_SYNC_FLG_TX) { __CPROVER_assert(S.TPdo[H_PN] == &P && S.TNum[H_PN] == H_TXT && S.TSync[H_PN] == 0, "COSyncAdd(TX): TPDO #n is in the table with its transmission type, SYNC count restarted"); __CPROVER_assert(0, "REACH:a"); }
    else { __CPROVER_assert(S.RPdo[H_PN] == &R, "COSyncAdd(RX): RPDO #n is in the table"); __CPROVER_assert(0, "REACH:b"); }
#else
    COSyncRemove(&S, H_PN, H_MSG);
    if (H_MSG == CO_SYNC_FLG_TX) { __CPROVER_assert(S.TPdo[H_PN] == 0, "COSyncRemove(TX): TPDO #n is out of the table"); __CPROVER_assert(0, "REACH:a"); }
    else { __CPROVER_assert(S.RPdo[H_PN] == 0, "COSyncRemove(RX): RPDO #n is out of the table"); __CPROVER_assert(0, "REACH:b"); }
#endif
    __CPROVER_assert((H_MSG == CO_SYNC_FLG_TX && G_T == H_PN) || ST_SAME(G_T), "frame: no other TPDO slot of the SYNC table changes");
    __CPROVER_assert((H_MSG == CO_SYNC_FLG_RX && G_R == H_PN) || SR_SAME(G_R), "frame: no other RPDO slot of the SYNC table changes");
    __CPROVER_assert(RF_SAME(G_R), "frame: a buffered synchronous RPDO frame is never touched by table maintenance");
    __CPROVER_assert(S.CobId == s0.CobId && S.Time == s0.Time && S.Tmr == s0.Tmr && S.Cycle == s0.Cycle && TP_SAME(G_T) && RP_SAME(G_R), "frame: SYNC settings and the PDOs themselves are untouched");
#elif VW_OP == 2
    __CPROVER_assume(!H_MAPN_OK || H_MAPN <= VW_MAPN_MAX);
    COTPdoReset(V_NODE.TPdo, H_PN);
    CO_ERR E = V_NODE.Error;
    __CPROVER_assert(SR_SAME(G_R) && RF_SAME(G_R) && RP_SAME(G_R), "frame: re-activating a TPDO leaves every RPDO, the RPDO SYNC table and the buffered RPDO frames alone");
    __CPROVER_assert(G_T == H_PN || (ST_SAME(G_T) && TP_SAME(G_T)), "frame: no other TPDO and no other TPDO slot of the SYNC table changes");
    __CPROVER_assert(S.CobId == s0.CobId && S.Time == s0.Time && S.Tmr == s0.Tmr && S.Cycle == s0.Cycle, "frame: SYNC settings untouched");
    __CPROVER_assert((l0.Obj != 0 && l0.Num != H_PN) ==> (V_NODE.TMap[G_L].Obj == l0.Obj && V_NODE.TMap[G_L].Num == l0.Num), "frame: the links of every other TPDO stay as they are");
    __CPROVER_assert(N_TDEL == (uint32_t)(p0.EvTmr >= 0) + (uint32_t)(p0.InTmr >= 0) && (p0.EvTmr < 0 || D_ID[0] == p0.EvTmr) && (p0.InTmr < 0 || D_ID[p0.EvTmr >= 0 ? 1 : 0] == p0.InTmr) && P.InTmr == -1, "the old event and inhibit timers of the TPDO are deleted, and only those");
    __CPROVER_assert(((P.Flags & CO_TPDO_FLG_S__) != 0) == (S.TPdo[H_PN] != 0) && (S.TPdo[H_PN] == 0 || S.TPdo[H_PN] == &P) && (P.Flags & CO_TPDO_FLG__IE) == 0, "WF_SYNC is kept: in the SYNC table iff synchronous; inhibit / pending-event flags are cleared");
    __CPROVER_assert(N_TCRE <= 1 && ((N_TCRE == 1) ? (P.EvTmr == H_TID && C_START == P.Event + H_PN && C_CYCLE == 0 && C_FUNC == &COTPdoTmrEvent && C_PARA == (void *)&P && P.Event > 0) : P.EvTmr == -1), "the event timer is owned iff it was created for this TPDO");
    if (E == CO_ERR_NONE) {
        _Bool valid = (H_ID & CO_TPDO_COBID_OFF) == 0, sync = valid && H_TYPE <= 240; uint16_t evt = (H_TYPE >= 254 && H_EVT_OK) ? H_EVTT : 0;
        __CPROVER_assert(H_TYPE_OK && H_ID_OK && (H_ID & CO_TPDO_COBID_REMOTE) != 0 && (H_ID & CO_TPDO_COBID_EXT) == 0, "no error only if the communication record is complete and the COB-ID is usable");
        __CPROVER_assert(P.Identifier == (valid ? (H_ID & 0x1FFFFFFF) : CO_TPDO_COBID_OFF), "the TPDO is active with the identifier of 18xxh:1 iff its valid bit says so");
        __CPROVER_assert(((P.Flags & CO_TPDO_FLG_S__) != 0) == sync && (!sync || (S.TNum[H_PN] == H_TYPE && S.TSync[H_PN] == 0)), "synchronous (types 0..240) iff valid and so configured; SYNC count restarted with the configured type");
        __CPROVER_assert(P.Event == (evt == 0 ? 0 : H_TK_EVT) && (evt == 0 || A_EVT == evt) && (N_TCRE == 1) == (P.Event > 0), "event timer: running iff type 254/255 and 18xxh:5 != 0, with that time");
        __CPROVER_assert(P.Inhibit == ((H_INH_OK && H_INHT != 0) ? H_TK_INH : 0), "inhibit time of 18xxh:3");
        /* the link table after a (re)activation: TPDO #n is linked to exactly the objects of its activated mapping */
        _Bool in_map = 0, linked = 0; uint32_t mine = 0;
        for (int on = 0; on < 8; on++) { if (on < P.ObjNum && P.Map[on] == V_NODE.TMap[G_L].Obj) { in_map = 1; } }
        for (int n = 0; n < CO_TPDO_N * 8; n++) { if (V_NODE.TMap[n].Obj != 0 && V_NODE.TMap[n].Num == H_PN) { mine++; if (G_M < P.ObjNum && V_NODE.TMap[n].Obj == P.Map[G_M & 7]) { linked = 1; } } }
        __CPROVER_assert((V_NODE.TMap[G_L].Obj != 0 && V_NODE.TMap[G_L].Num == H_PN) ==> in_map, "link table: no link of an earlier activation survives - every link of the TPDO names an object of its current mapping");
        __CPROVER_assert(G_M < P.ObjNum ==> linked, "link table: every object of the activated mapping is linked to the TPDO (its changes trigger the TPDO: no trigger lost)");
        __CPROVER_assert(mine <= 8, "link table: at most 8 links per TPDO (so the table of 8 * CO_TPDO_N slots never runs full)");
        if (sync) { __CPROVER_assert(0, "REACH:a"); }
        if (N_TCRE == 1) { __CPROVER_assert(0, "REACH:b"); }
    }
#elif VW_OP == 4 || VW_OP == 5
    /* node initialisation / NMT reset: every PDO is cleared, those with a communication record are (re)activated */
    __CPROVER_assume(!H_MAPN_OK || H_MAPN <= VW_MAPN_MAX);
    /* (the length byte of a stored mapping entry is whatever a client wrote: entries of 0 bytes are part of the input space) */
    /* pre-state: ANY well-formed PDO / SYNC state - the call site CONmtSetMode(OPERATIONAL) runs these on a node that may have
     * been OPERATIONAL before (PDOs active, SYNC tables filled, timers running), not only on fresh tables */
    /* (a PDO without communication record has never been activated - the dictionary does not change its structure; that it then
     *  STAYS off is the clause below, so the assumption is inductive) */
    if (!H_COMM0_OK) { for (int k = 0; k < CO_TPDO_N; k++) { __CPROVER_assume(V_NODE.TPdo[k].Flags == 0 && V_NODE.TPdo[k].EvTmr == -1 && V_NODE.TPdo[k].InTmr == -1); } for (int k = 0; k < CO_RPDO_N; k++) { __CPROVER_assume(V_NODE.RPdo[k].Flag == 0); } }
    uint32_t want = 0; for (int k = 0; k < CO_TPDO_N; k++) { want += (V_NODE.TPdo[k].EvTmr >= 0 ? 1u : 0u) + (V_NODE.TPdo[k].InTmr >= 0 ? 1u : 0u); }
#if VW_OP == 4
    COTPdoInit(V_NODE.TPdo, &V_NODE);
    __CPROVER_assert(N_TDEL == want && V_NODE.TPdo[G_T].Node == &V_NODE && V_NODE.TPdo[G_T].InTmr == -1 && V_NODE.TPdo[G_T].ObjNum <= 8, "init: the timers of a previous activation are deleted (each once, no other); every TPDO is linked to the node, owns no inhibit timer, maps at most 8 objects");
    __CPROVER_assert(!H_COMM0_OK ==> (V_NODE.TPdo[G_T].Identifier == CO_TPDO_COBID_OFF && V_NODE.TPdo[G_T].ObjNum == 0 && V_NODE.TPdo[G_T].EvTmr == -1 && S.TPdo[G_T] == 0 && N_TCRE == 0), "init: a TPDO without communication record stays off");
    __CPROVER_assert(((V_NODE.TPdo[G_T].Flags & CO_TPDO_FLG_S__) != 0) == (S.TPdo[G_T] != 0) && (S.TPdo[G_T] == 0 || S.TPdo[G_T] == &V_NODE.TPdo[G_T]) && SR_SAME(G_R) && RF_SAME(G_R), "init: WF_SYNC kept for every TPDO; RPDO table and buffered frames untouched");
    __CPROVER_assert(N_TCRE <= CO_TPDO_N, "init: at most one event timer per TPDO");
    if (H_COMM0_OK && V_NODE.TPdo[G_T].Identifier != CO_TPDO_COBID_OFF) { __CPROVER_assert(0, "REACH:a"); }
    if (!H_COMM0_OK) { __CPROVER_assert(0, "REACH:b"); }
#else
    CORPdoInit(V_NODE.RPdo, &V_NODE);
    __CPROVER_assert(N_TDEL == 0 && N_TCRE == 0 && V_NODE.RPdo[G_R].Node == &V_NODE && V_NODE.RPdo[G_R].ObjNum <= 8, "init: every RPDO is linked to the node and maps at most 8 slots; no timer is touched");
    __CPROVER_assert(!H_COMM0_OK ==> (V_NODE.RPdo[G_R].Identifier == 0 && V_NODE.RPdo[G_R].ObjNum == 0 && S.RPdo[G_R] == 0), "init: an RPDO without communication record receives nothing");
    __CPROVER_assert(((V_NODE.RPdo[G_R].Flag & CO_RPDO_FLG_S_) != 0) == (S.RPdo[G_R] != 0) && (S.RPdo[G_R] == 0 || S.RPdo[G_R] == &V_NODE.RPdo[G_R]) && ST_SAME(G_T), "init: WF_SYNC kept for every RPDO (an RPDO that is no longer synchronous leaves the SYNC table); TPDO table untouched");
    if (H_COMM0_OK && (V_NODE.RPdo[G_R].Flag & CO_RPDO_FLG__E)) { __CPROVER_assert(0, "REACH:a"); }
    if (!H_COMM0_OK) { __CPROVER_assert(0, "REACH:b"); }
#endif
#else
    __CPROVER_assume(!H_MAPN_OK || H_MAPN <= VW_MAPN_MAX);
    /* (the length byte of a stored mapping entry is whatever a client wrote: entries of 0 bytes are part of the input space) */
    (void)CORPdoReset(V_NODE.RPdo, H_PN);
    CO_ERR E = V_NODE.Error;
    __CPROVER_assert(ST_SAME(G_T) && TP_SAME(G_T), "frame: re-activating an RPDO leaves every TPDO and the TPDO SYNC table alone");
    __CPROVER_assert(G_R == H_PN || (SR_SAME(G_R) && RP_SAME(G_R) && RF_SAME(G_R)), "frame: no other RPDO, SYNC slot or buffered frame changes");
    __CPROVER_assert(S.CobId == s0.CobId && S.Time == s0.Time && S.Tmr == s0.Tmr && S.Cycle == s0.Cycle && N_TDEL == 0 && N_TCRE == 0, "frame: SYNC settings and timers untouched");
    __CPROVER_assert(((R.Flag & CO_RPDO_FLG_S_) != 0) == (S.RPdo[H_PN] != 0) && (S.RPdo[H_PN] == 0 || S.RPdo[H_PN] == &R), "WF_SYNC is kept: in the SYNC table iff synchronous");
    if (E == CO_ERR_NONE || E == CO_ERR_RPDO_MAP_OBJ) {
        if (H_TYPE_OK && H_ID_OK && (H_ID & CO_RPDO_COBID_EXT) == 0) {
            _Bool valid = (H_ID & CO_RPDO_COBID_OFF) == 0;
            __CPROVER_assert(R.Identifier == (valid ? (H_ID & 0x1FFFFFFF) : CO_RPDO_COBID_OFF) && ((R.Flag & CO_RPDO_FLG__E) != 0) == valid, "the RPDO is enabled with the identifier of 14xxh:1 iff its valid bit says so");
            __CPROVER_assert(((R.Flag & CO_RPDO_FLG_S_) != 0) == (valid && H_TYPE <= 240), "synchronous (types 0..240) iff valid and so configured");
            if (valid && H_TYPE <= 240) { __CPROVER_assert(0, "REACH:a"); }
            if (!valid) { __CPROVER_assert(0, "REACH:b"); }
        }
    }
    __CPROVER_assert((E != CO_ERR_NONE) ==> R.ObjNum == 0, "an RPDO whose record could not be activated maps nothing");
#endif
    __CPROVER_assert(0, "REACH:post");
}
