/* SDO client (co_csdo.c) - property C19, EXPLICIT form, per-step inductive.
 * One step = one API request / one received frame (COCSdoCheck + COCSdoResponse as in CONodeProcess) / one timeout
 * action, started from an ARBITRARY well-formed client state (WF_CSDO below; user buffer = heap object of exactly
 * Tfer.Size bytes, size symbolic and unbounded up to 2^31) and any frame content.  Each step re-establishes WF_CSDO
 * and satisfies the step clause of C19; by induction over the steps of a history the transfer-level statements follow.
 * Timer manager, CAN send and the completion callback are logging stubs; the timer stub keeps the ghost set of timer
 * actions this client owns (G_LIVE / G_LIVE_ID) so that "leaves no timer behind" and "deletes no foreign/stale timer"
 * are assertions.   -DVW_OP=0 RequestUpload 1 RequestDownload 2 Check+Response 3 Timeout 4 Init 5 Find.
 * -include'd in front of co_csdo.c. */
#include "vw_defs.h"
#include "vw_node.h"
#define C (&V_NODE.CSdo[0])
static void COCSdoTimeout(void *parg);
/* ---- ghosts / stubs ---- */
uint32_t G_CB_N, G_CB_CODE; uint16_t G_CB_IDX; uint8_t G_CB_SUB; CO_CSDO *G_CB_CSDO; CO_CSDO_STATE G_CB_STATE;
static void vw_csdo_cb(CO_CSDO *c, uint16_t idx, uint8_t sub, uint32_t code) { G_CB_N++; G_CB_CSDO = c; G_CB_IDX = idx; G_CB_SUB = sub; G_CB_CODE = code; G_CB_STATE = c->State; }
uint32_t G_TXN; CO_IF_FRM G_TXF; int16_t H_TXRES;
int16_t COIfCanSend(CO_IF *cif, CO_IF_FRM *frm) { __CPROVER_assert(cif == &V_NODE.If && frm != 0, "COIfCanSend requires"); G_TXN++; G_TXF = *frm; return H_TXRES; }
_Bool G_NOTMR;      /* history ghost: the timer manager refused the timeout action of the running transfer (pool exhausted) */
uint32_t G_LIVE, G_BAD_DEL, N_TDEL, N_TCRE, N_TICKS, C_START, C_CYCLE, H_TICKS, A_TIME; int16_t G_LIVE_ID, H_TID; void *C_PARA; CO_TMR_FUNC C_FUNC;
int16_t COTmrDelete(CO_TMR *tmr, int16_t actId)
{
    __CPROVER_assert(tmr == &V_NODE.Tmr, "COTmrDelete requires");
    N_TDEL++;
    if (actId < 0) { return -1; }                                       /* tolerated by the timer manager: no effect */
    if (G_LIVE == 1 && actId == G_LIVE_ID) { G_LIVE = 0; return 0; }
    G_BAD_DEL++;                                                        /* an id this client does not own (stale or foreign) */
    return -1;
}
int16_t COTmrCreate(CO_TMR *tmr, uint32_t s, uint32_t c, CO_TMR_FUNC f, void *p)
{
    __CPROVER_assert(tmr == &V_NODE.Tmr, "COTmrCreate requires");
    N_TCRE++; C_START = s; C_CYCLE = c; C_FUNC = f; C_PARA = p;
    __CPROVER_assume(H_TID >= -1);
    if (H_TID >= 0) { G_LIVE++; G_LIVE_ID = H_TID; G_NOTMR = 0; } else { G_NOTMR = 1; }
    return H_TID;
}
uint32_t COTmrGetTicks(CO_TMR *tmr, uint16_t time, uint32_t unit) { __CPROVER_assert(unit == 1000, "SDO timeouts are milliseconds"); N_TICKS++; A_TIME = time; return H_TICKS; }
uint32_t H_RD_TX, H_RD_RX; uint8_t H_RD_NODE; _Bool H_RD_OK[3];
CO_ERR CODictRdLong(CO_DICT *cod, uint32_t key, uint32_t *val) { uint8_t s = (uint8_t)(key >> 8); if (s == 1 && H_RD_OK[0]) { *val = H_RD_TX; return CO_ERR_NONE; } if (s == 2 && H_RD_OK[1]) { *val = H_RD_RX; return CO_ERR_NONE; } return CO_ERR_OBJ_NOT_FOUND; }
CO_ERR CODictRdByte(CO_DICT *cod, uint32_t key, uint8_t *val) { if (H_RD_OK[2]) { *val = H_RD_NODE; return CO_ERR_NONE; } return CO_ERR_OBJ_NOT_FOUND; }
void CONodeFatalError(void) { __CPROVER_assert(0, "CONodeFatalError must not be reached"); }
/* ---- world ---- */
uint32_t H_SIZE, G_K; uint8_t *V_UBUF; _Bool H_BUSY_TMR;
static void vw_csdo_build(void)
{
    C->Node = &V_NODE; C->Tfer.Csdo = C; C->Frm = 0;
    __CPROVER_assume((unsigned)C->State <= 2);
    __CPROVER_assume(H_SIZE >= 1 && H_SIZE <= 0x7FFFFFFFu);
    V_UBUF = malloc(H_SIZE); __CPROVER_assume(V_UBUF != 0);
    G_LIVE = 0; G_LIVE_ID = -1; G_BAD_DEL = 0;
    if (C->State == CO_CSDO_STATE_BUSY) {
        C->Tfer.Buf = V_UBUF; C->Tfer.Size = H_SIZE; C->Tfer.Call = vw_csdo_cb;
        __CPROVER_assume((unsigned)C->Tfer.Type >= 1 && (unsigned)C->Tfer.Type <= 4);
        __CPROVER_assume((H_SIZE <= 4) == (C->Tfer.Type == CO_CSDO_TRANSFER_UPLOAD || C->Tfer.Type == CO_CSDO_TRANSFER_DOWNLOAD));
        __CPROVER_assume(C->Tfer.Buf_Idx <= H_SIZE && C->Tfer.TBit <= 1 && C->Tfer.Tmr >= -1);
        if (C->Tfer.Tmr >= 0) { G_LIVE = 1; G_LIVE_ID = C->Tfer.Tmr; G_NOTMR = 0; } else { G_NOTMR = 1; }
    } else {
        C->Tfer.Buf = 0; C->Tfer.Call = 0; C->Tfer.Tmr = -1; C->Tfer.Type = CO_CSDO_TRANSFER_NONE;
    }
}
/* WF_CSDO: the inductive client invariant */
static _Bool wf_csdo(void)
{
    if ((unsigned)C->State > 2 || C->Node != &V_NODE) { return 0; }
    if (C->State == CO_CSDO_STATE_BUSY) {
        return C->Tfer.Buf == V_UBUF && C->Tfer.Size == H_SIZE && C->Tfer.Call == vw_csdo_cb && (unsigned)C->Tfer.Type >= 1 && (unsigned)C->Tfer.Type <= 4 &&
               ((H_SIZE <= 4) == (C->Tfer.Type == CO_CSDO_TRANSFER_UPLOAD || C->Tfer.Type == CO_CSDO_TRANSFER_DOWNLOAD)) &&
               C->Tfer.Buf_Idx <= H_SIZE && C->Tfer.TBit <= 1 && C->Tfer.Tmr >= -1 && G_LIVE == (C->Tfer.Tmr >= 0 ? 1u : 0u) && (C->Tfer.Tmr < 0 || G_LIVE_ID == C->Tfer.Tmr) &&
               (C->Tfer.Tmr >= 0 || G_NOTMR);      /* a running transfer is supervised by its timeout action unless the timer manager refused it */
    }
    /* INVALID / IDLE: nothing of a transfer is left: no owned timer, no id that could later delete a foreign timer, no callback */
    return C->Tfer.Tmr == -1 && G_LIVE == 0 && C->Tfer.Call == 0 && C->Tfer.Type == CO_CSDO_TRANSFER_NONE && C->Frm == 0;
}
uint32_t H_KEY, H_TMO; _Bool H_NOBUF, H_NOCB; CO_IF_FRM H_FRM;
void harness(void)
{
    vw_node_init();
    vw_csdo_build();
    __CPROVER_assert(wf_csdo(), "construction: the pre-state is well-formed");
    __CPROVER_assume(G_K < H_SIZE);
    CO_CSDO c0 = *C; uint8_t b0 = V_UBUF[G_K]; uint8_t bk[8]; uint32_t i0 = c0.Tfer.Buf_Idx, rem = H_SIZE - (i0 <= H_SIZE ? i0 : H_SIZE), w = rem > 7 ? 7 : rem; int j;
    for (j = 0; j < 7; j++) { bk[j] = (c0.State == CO_CSDO_STATE_BUSY && (uint32_t)j < w) ? V_UBUF[i0 + j] : 0; }
    uint16_t idx = c0.Tfer.Idx; uint8_t sub = c0.Tfer.Sub;
    G_CB_N = G_TXN = N_TDEL = N_TCRE = N_TICKS = 0;
#define UNCHANGED (C->State == c0.State && C->Tfer.Type == c0.Tfer.Type && C->Tfer.Idx == c0.Tfer.Idx && C->Tfer.Sub == c0.Tfer.Sub && C->Tfer.Buf == c0.Tfer.Buf && C->Tfer.Size == c0.Tfer.Size && \
                   C->Tfer.Tmr == c0.Tfer.Tmr && C->Tfer.Tmt == c0.Tfer.Tmt && C->Tfer.Call == c0.Tfer.Call && C->Tfer.Buf_Idx == c0.Tfer.Buf_Idx && C->Tfer.TBit == c0.Tfer.TBit && C->TxId == c0.TxId && C->RxId == c0.RxId)
#define QUIET (G_CB_N == 0 && G_TXN == 0 && N_TDEL == 0 && N_TCRE == 0)
#define REFRESHED (N_TCRE == 1 && C_START == H_TICKS && C_CYCLE == 0 && C_FUNC == &COCSdoTimeout && C_PARA == (void *)C && A_TIME == (uint16_t)c0.Tfer.Tmt && C->Tfer.Tmr == H_TID && G_BAD_DEL == 0)
#define DONE(code) (G_CB_N == 1 && G_CB_CODE == (code) && G_CB_CSDO == C && G_CB_IDX == idx && G_CB_SUB == sub && C->State == CO_CSDO_STATE_IDLE && G_BAD_DEL == 0)
#if VW_OP == 0 || VW_OP == 1
    /* a new request: the user hands in a buffer of H_SIZE bytes */
    uint8_t *ub = H_NOBUF ? (uint8_t *)0 : V_UBUF; CO_CSDO_CALLBACK_T cb = H_NOCB ? (CO_CSDO_CALLBACK_T)0 : vw_csdo_cb;
    if (c0.State == CO_CSDO_STATE_BUSY) { ub = malloc(H_SIZE); __CPROVER_assume(ub != 0); }      /* a different buffer while busy */
    uint8_t d0[4]; for (j = 0; j < 4; j++) { d0[j] = ((uint32_t)j < H_SIZE && ub != 0) ? ub[j] : 0; }
#if VW_OP == 0
    CO_ERR e = COCSdoRequestUpload(C, H_KEY, ub, H_SIZE, cb, H_TMO);
#else
    CO_ERR e = COCSdoRequestDownload(C, H_KEY, ub, H_SIZE, cb, H_TMO);
#endif
    if (c0.State == CO_CSDO_STATE_BUSY) {
        __CPROVER_assert(e != CO_ERR_NONE && UNCHANGED && QUIET && G_LIVE == 1u - (c0.Tfer.Tmr < 0), "a busy client refuses a further request and the running transfer is untouched");
        __CPROVER_assert(0, "REACH:a");
    } else if (c0.State == CO_CSDO_STATE_INVALID || H_NOBUF || H_NOCB) {
        __CPROVER_assert(e != CO_ERR_NONE && UNCHANGED && QUIET, "a disabled client / a bad argument is refused without effect");
    } else {
        __CPROVER_assert(e == CO_ERR_NONE && C->State == CO_CSDO_STATE_BUSY && G_CB_N == 0, "an idle client accepts the request and is busy from then on");
        __CPROVER_assert(C->Tfer.Buf == V_UBUF && C->Tfer.Size == H_SIZE && C->Tfer.Buf_Idx == 0 && C->Tfer.TBit == 0 && C->Tfer.Idx == CO_GET_IDX(H_KEY) && C->Tfer.Sub == CO_GET_SUB(H_KEY) && C->Tfer.Tmt == H_TMO && C->Tfer.Abort == 0, "the transfer context is that of the request");
        __CPROVER_assert(N_TCRE == 1 && N_TDEL == 0 && C_START == H_TICKS && C_CYCLE == 0 && C_FUNC == &COCSdoTimeout && C_PARA == (void *)C && C->Tfer.Tmr == H_TID, "exactly one timeout action for this transfer");
        __CPROVER_assert(G_TXN == 1 && G_TXF.Identifier == c0.TxId && G_TXF.DLC == 8 && CO_GET_WORD(&G_TXF, 1) == CO_GET_IDX(H_KEY) && CO_GET_BYTE(&G_TXF, 3) == CO_GET_SUB(H_KEY), "exactly one initiate frame with the multiplexer of the request");
#if VW_OP == 0
        __CPROVER_assert(CO_GET_BYTE(&G_TXF, 0) == 0x40 && CO_GET_LONG(&G_TXF, 4) == 0, "initiate upload request");
        __CPROVER_assert((H_SIZE <= 4) == (C->Tfer.Type == CO_CSDO_TRANSFER_UPLOAD) && (H_SIZE > 4) == (C->Tfer.Type == CO_CSDO_TRANSFER_UPLOAD_SEGMENT), "transfer type by size");
#else
        if (H_SIZE <= 4) {
            __CPROVER_assert(C->Tfer.Type == CO_CSDO_TRANSFER_DOWNLOAD && CO_GET_BYTE(&G_TXF, 0) == (0x23 | ((4 - H_SIZE) << 2)), "expedited download: e=1 s=1 n=4-size");
            for (j = 0; j < 4; j++) { __CPROVER_assert(G_TXF.Data[4 + j] == d0[j], "expedited download: exactly the user's bytes, padded with 0"); }
        } else {
            __CPROVER_assert(C->Tfer.Type == CO_CSDO_TRANSFER_DOWNLOAD_SEGMENT && CO_GET_BYTE(&G_TXF, 0) == 0x21 && CO_GET_LONG(&G_TXF, 4) == H_SIZE, "segmented download: announced size is the user's size");
        }
#endif
        __CPROVER_assert(0, "REACH:b");
    }
    __CPROVER_assert(V_UBUF[G_K] == b0, "a request does not write the user buffer");
#elif VW_OP == 2
    CO_IF_FRM f0 = H_FRM;
    CO_CSDO *c = COCSdoCheck(V_NODE.CSdo, &H_FRM);
    uint8_t cmd = f0.Data[0]; _Bool mux = (CO_GET_WORD(&f0, 1) == idx && CO_GET_BYTE(&f0, 3) == sub);
    if (!(c0.State == CO_CSDO_STATE_BUSY && f0.Identifier == c0.RxId)) {
        __CPROVER_assert(c == 0 && UNCHANGED && QUIET, "a frame that is not the response to a running transfer is not consumed");
    } else {
        __CPROVER_assert(c == C, "the response is routed to the busy client");
        (void)COCSdoResponse(c);
        __CPROVER_assert(G_CB_N <= 1 && (G_CB_N == 1) == (C->State == CO_CSDO_STATE_IDLE) && C->State != CO_CSDO_STATE_INVALID, "the completion callback runs exactly when the transfer ends, once");
        __CPROVER_assert(G_TXN <= 1 && G_BAD_DEL == 0, "at most one frame per response; no foreign or stale timer id is deleted");
        _Bool up = (c0.Tfer.Type == CO_CSDO_TRANSFER_UPLOAD || c0.Tfer.Type == CO_CSDO_TRANSFER_UPLOAD_SEGMENT);
        if (!up) { __CPROVER_assert(V_UBUF[G_K] == b0, "a download never writes the user buffer"); }
        if (cmd == 0x80 && mux) {
            __CPROVER_assert(DONE(CO_GET_LONG(&f0, 4)) && G_TXN == 0 && V_UBUF[G_K] == b0, "server abort: callback with the server's abort code, nothing sent, buffer untouched");
            __CPROVER_assert(0, "REACH:a");
        } else if (c0.Tfer.Type == CO_CSDO_TRANSFER_UPLOAD) {
            if ((cmd & 0xE2) == 0x42) {                       /* CiA 301 expedited upload response: scs = 2, e = 1; 4 - n data bytes */
                uint32_t wd = 4u - ((cmd >> 2) & 3u);
                if (wd <= H_SIZE) {
                    __CPROVER_assert(DONE(0) && G_TXN == 0, "expedited upload response: completed with code 0");
                    __CPROVER_assert(V_UBUF[G_K] == (G_K < wd ? f0.Data[4 + (G_K & 3)] : b0), "expedited upload: the buffer holds exactly the server's bytes, the rest is untouched");
                } else {
                    __CPROVER_assert(G_CB_N == 1 && G_CB_CODE != 0 && V_UBUF[G_K] == b0, "expedited upload of more bytes than the user buffer holds: completed with an error, buffer untouched");
                }
            } else {
                __CPROVER_assert((G_CB_N == 0 || G_CB_CODE != 0) && V_UBUF[G_K] == b0 && G_TXN == 0, "anything else is no upload response: never completed with code 0, buffer untouched");
            }
        } else if (c0.Tfer.Type == CO_CSDO_TRANSFER_DOWNLOAD) {
            if (cmd == 0x60) { __CPROVER_assert(DONE(0) && G_TXN == 0, "expedited download confirmed: completed with code 0"); }
            else { __CPROVER_assert((G_CB_N == 0 || G_CB_CODE != 0) && G_TXN == 0, "anything else is no confirmation"); }
        } else if (c0.Tfer.Type == CO_CSDO_TRANSFER_UPLOAD_SEGMENT) {
            if (cmd == 0x41) {
                if (mux && CO_GET_LONG(&f0, 4) == H_SIZE) {
                    __CPROVER_assert(G_CB_N == 0 && G_TXN == 1 && G_TXF.Identifier == c0.TxId && G_TXF.DLC == 8 && (c0.Tfer.TBit != 0 || G_TXF.Data[0] == 0x60) && REFRESHED && V_UBUF[G_K] == b0 && C->Tfer.Buf_Idx == i0 && C->Tfer.TBit == c0.Tfer.TBit, "initiate upload response: first segment requested, timeout restarted");
                } else {
                    __CPROVER_assert(G_CB_N == 1 && G_CB_CODE != 0 && G_TXN == 0 && V_UBUF[G_K] == b0, "initiate upload response for another object / another size: completed with an error");
                }
            } else if ((cmd & 0xE0) == 0) {
                if (((cmd >> 4) & 1) == c0.Tfer.TBit) {
                    __CPROVER_assert(C->Tfer.Buf_Idx == i0 + w || C->State == CO_CSDO_STATE_IDLE, "upload segment: the cursor advances by the bytes taken");
                    __CPROVER_assert(V_UBUF[G_K] == ((G_K >= i0 && G_K < i0 + w) ? f0.Data[1 + ((G_K - i0) & 7)] : b0), "upload segment: exactly the next min(7, remaining) bytes are stored in order, nothing else is written");
                    if (cmd & 1) { __CPROVER_assert(DONE(0) && G_TXN == 0, "last upload segment: completed with code 0"); __CPROVER_assert(0, "REACH:b"); }
                    else { __CPROVER_assert(G_CB_N == 0 && G_TXN == 1 && G_TXF.Identifier == c0.TxId && G_TXF.DLC == 8 && G_TXF.Data[0] == (0x60 | ((c0.Tfer.TBit ^ 1) << 4)) && C->Tfer.TBit == (c0.Tfer.TBit ^ 1) && REFRESHED, "upload segment: the next segment is requested with the toggled bit, timeout restarted"); }
                } else {
                    __CPROVER_assert(G_CB_N == 1 && G_CB_CODE == 0x05030000u && G_TXN == 0 && V_UBUF[G_K] == b0, "toggle error: completed with 0503 0000h, buffer untouched");
                }
            } else {
                __CPROVER_assert(G_CB_N == 1 && G_CB_CODE != 0 && V_UBUF[G_K] == b0, "unknown response: completed with an error");
            }
        } else {
            _Bool seg = 0; uint8_t tb = 0;
            if (cmd == 0x60) {
                if (mux) { seg = 1; tb = c0.Tfer.TBit; } else { __CPROVER_assert(G_CB_N == 1 && G_CB_CODE != 0 && G_TXN == 0, "initiate download response for another object: completed with an error"); }
            } else if ((cmd & 0xE0) == 0x20) {
                if (rem == 0) { __CPROVER_assert(DONE(0) && G_TXN == 0, "response to the last download segment: completed with code 0"); __CPROVER_assert(0, "REACH:b"); }
                else if (((cmd >> 4) & 1) == c0.Tfer.TBit) { seg = 1; tb = c0.Tfer.TBit ^ 1; }
                else { __CPROVER_assert(G_CB_N == 1 && G_CB_CODE == 0x05030000u && G_TXN == 0, "toggle error: completed with 0503 0000h"); }
            } else {
                __CPROVER_assert(G_CB_N == 1 && G_CB_CODE != 0, "unknown response: completed with an error");
            }
            if (seg) {
                __CPROVER_assert(G_CB_N == 0 && G_TXN == 1 && G_TXF.Identifier == c0.TxId && G_TXF.DLC == 8 && REFRESHED, "download: one segment frame, timeout restarted");
                __CPROVER_assert(G_TXF.Data[0] == ((tb << 4) | ((7 - w) << 1) | (rem <= 7 ? 1 : 0)), "download segment: toggle bit alternates, n = 7 - bytes, c marks exactly the last segment");
                for (j = 0; j < 7; j++) { __CPROVER_assert(G_TXF.Data[1 + j] == bk[j], "download segment: exactly the next min(7, remaining) user bytes in order, padded with 0"); }
                __CPROVER_assert(C->Tfer.Buf_Idx == i0 + w && C->Tfer.TBit == tb, "download segment: cursor and toggle advance");
            }
        }
    }
#elif VW_OP == 3
    /* the one-shot timeout action fires: the timer manager has released the action before it calls back */
    if (c0.State == CO_CSDO_STATE_BUSY) { __CPROVER_assume(c0.Tfer.Tmr >= 0); G_LIVE = 0; }
    COCSdoTimeout(C);
    if (c0.State == CO_CSDO_STATE_BUSY) {
        __CPROVER_assert(DONE(0x05040000u), "timeout: callback exactly once with 0504 0000h");
        __CPROVER_assert(G_TXN == 1 && G_TXF.Identifier == c0.TxId && G_TXF.DLC == 8 && G_TXF.Data[0] == 0x80 && CO_GET_WORD(&G_TXF, 1) == idx && CO_GET_BYTE(&G_TXF, 3) == sub && CO_GET_LONG(&G_TXF, 4) == 0x05040000u, "timeout: one abort frame with the multiplexer of the transfer and 0504 0000h");
        __CPROVER_assert(N_TCRE == 0, "timeout: no timer is created");
        G_LIVE = 0;
        __CPROVER_assert(0, "REACH:a");
    } else {
        __CPROVER_assert(UNCHANGED && QUIET, "a timeout action without a running transfer has no effect");
        __CPROVER_assert(0, "REACH:b");
    }
    __CPROVER_assert(V_UBUF[G_K] == b0, "timeout: the user buffer is untouched");
#elif VW_OP == 4
    __CPROVER_assume(c0.State != CO_CSDO_STATE_BUSY);
    COCSdoInit(V_NODE.CSdo, &V_NODE);
    _Bool on = H_RD_OK[0] && H_RD_OK[1] && H_RD_OK[2] && (H_RD_TX & 0x80000000u) == 0 && (H_RD_RX & 0x80000000u) == 0;
    __CPROVER_assert(C->State == (on ? CO_CSDO_STATE_IDLE : CO_CSDO_STATE_INVALID), "init: the client is idle iff 1280h:1..3 exist and both COB-IDs are valid");
    __CPROVER_assert(!on || (C->TxId == H_RD_TX + H_RD_NODE && C->RxId == H_RD_RX + H_RD_NODE), "init: identifiers from 1280h");
    __CPROVER_assert(QUIET, "init: nothing is sent, no timer touched");
    if (on) { __CPROVER_assert(0, "REACH:a"); } else { __CPROVER_assert(0, "REACH:b"); }
#else
    uint8_t num = (uint8_t)H_KEY;
    CO_CSDO *r = COCSdoFind(&V_NODE, num);
    __CPROVER_assert(r == ((num < CO_CSDO_N && C->State != CO_CSDO_STATE_INVALID) ? &V_NODE.CSdo[num] : (CO_CSDO *)0), "find: the enabled client of that number, else none");
    __CPROVER_assert(UNCHANGED && QUIET, "find has no effect");
    if (r) { __CPROVER_assert(0, "REACH:a"); } else { __CPROVER_assert(0, "REACH:b"); }
#endif
    __CPROVER_assert(wf_csdo(), "WF_CSDO is re-established (busy: context consistent and exactly the transfer's timeout action owned; idle: no timer, no id, no callback left behind)");
    __CPROVER_assert(0, "REACH:post");
}
