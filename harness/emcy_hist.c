/* EMCY history 1003h (co_emcy_hist.c) - property C15 (pre-defined error field), EXPLICIT form, BOUNDED: history
 * depth <= 8 entries (the depth range of the property).  The entries 1003h:0..H_MAXN exist as real UNSIGNED8 /
 * UNSIGNED32 objects (real type functions of co_integer8/32.c) over V_HV0 / V_HVAL[]; the abstract view is the list
 * "newest first": view(k) = V_HVAL[map(k)], k = 1..Num.  Representation invariant WF_HIST: 1 <= Max == depth,
 * Num <= Max, Num < Max => Off == Num (not yet wrapped), Num == Max => 1 <= Off <= Max, 1003h:0 holds Num.
 * -DVW_OP=0 COEmcyHistAdd 1 COEmcyHistReset 2 read 1003h:k 3 write 1003h:k 4 init. -include'd in front of co_emcy_hist.c */
#include "vw_defs.h"
#include "vw_node.h"
#define HD 8
CO_OBJ V_H[HD + 2]; uint32_t V_HVAL[HD + 2]; uint8_t V_HV0; uint8_t H_MAXN, H_SUB, H_ERR, H_W8; _Bool H_USRNULL; CO_EMCY_USR H_USR; uint32_t H_RD;
CO_OBJ *CODictFind(CO_DICT *cod, uint32_t key) { uint8_t sub = (uint8_t)(key >> 8); if ((key >> 16) == 0x1003 && sub <= H_MAXN) { return &V_H[sub]; } return 0; }
void COTPdoTrigObj(CO_TPDO *pdo, struct CO_OBJ_T *obj) { }
#define HI (V_NODE.Emcy.Hist)
static uint8_t map_of(uint8_t k, uint8_t off, uint8_t max) { return k <= off ? (uint8_t)(off - (k - 1)) : (uint8_t)(max - (k - 1) + off); }
static _Bool wf_hist(void) { return HI.Max == H_MAXN && HI.Max >= 1 && HI.Num <= HI.Max && (HI.Num < HI.Max ? HI.Off == HI.Num : (HI.Off >= 1 && HI.Off <= HI.Max)) && V_HV0 == HI.Num; }
void harness(void)
{
    vw_node_init();
    __CPROVER_assume(H_MAXN >= 1 && H_MAXN <= HD && G_K >= 1 && G_K <= HD);
    V_H[0].Key = CO_KEY(0x1003, 0, CO_OBJ_____RW); V_H[0].Type = CO_TUNSIGNED8; V_H[0].Data = (CO_DATA)&V_HV0;
    for (int k = 1; k <= HD + 1; k++) { V_H[k].Key = CO_KEY(0x1003, k, CO_OBJ_____R_); V_H[k].Type = CO_TUNSIGNED32; V_H[k].Data = (CO_DATA)&V_HVAL[k]; }
    V_NODE.Emcy.Root = V_EMCYTBL;
#if VW_OP != 4
    __CPROVER_assume(wf_hist());
#endif
    CO_EMCY_HIST h0 = HI; uint32_t v0[HD + 2]; for (int k = 0; k <= HD + 1; k++) { v0[k] = V_HVAL[k]; }
    uint32_t old_k = (VW_OP != 4 && G_K <= h0.Num) ? v0[map_of((uint8_t)G_K, h0.Off, h0.Max)] : 0;      /* view(G_K) before */
#if VW_OP == 0
    __CPROVER_assume(H_ERR < CO_EMCY_N);
    CO_EMCY_USR *usr = H_USRNULL ? (CO_EMCY_USR *)0 : &H_USR;
    COEmcyHistAdd(&V_NODE.Emcy, H_ERR, usr);
    uint8_t n1 = h0.Num < h0.Max ? (uint8_t)(h0.Num + 1) : h0.Max;
    __CPROVER_assert(wf_hist() && HI.Num == n1, "add: WF_HIST kept; the count grows by one up to the depth, 1003h:0 shows it");
    __CPROVER_assert(V_HVAL[map_of(1, HI.Off, HI.Max)] == ((uint32_t)V_EMCYTBL[H_ERR].Code | (usr ? ((uint32_t)usr->Hist << 16) : 0)), "add: the newest entry is the error code with the optional manufacturer field");
    if (G_K < n1) { __CPROVER_assert(V_HVAL[map_of((uint8_t)(G_K + 1), HI.Off, HI.Max)] == old_k, "add: every older entry moves one place down, in order (the oldest drops out when full)"); }
    if (h0.Num == h0.Max && h0.Off == h0.Max) { __CPROVER_assert(0, "REACH:a"); }
    if (h0.Num < h0.Max) { __CPROVER_assert(0, "REACH:b"); }
#elif VW_OP == 1
    COEmcyHistReset(&V_NODE.Emcy);
    __CPROVER_assert(wf_hist() && HI.Num == 0 && HI.Off == 0 && (G_K > H_MAXN || V_HVAL[G_K] == 0), "reset: the history is empty, every entry 0, 1003h:0 shows 0");
    __CPROVER_assert(0, "REACH:a"); __CPROVER_assert(0, "REACH:b");
#elif VW_OP == 2
    __CPROVER_assume(H_SUB <= H_MAXN);
    CO_ERR e = COTEmcyHistRead(&V_H[H_SUB], &V_NODE, &H_RD, H_SUB == 0 ? 1 : 4);
    if (H_SUB == 0) { __CPROVER_assert(e == CO_ERR_NONE && (uint8_t)H_RD == h0.Num, "read 1003h:0: the number of entries"); }
    else if (H_SUB <= h0.Num) { __CPROVER_assert(e == CO_ERR_NONE && H_RD == v0[map_of(H_SUB, h0.Off, h0.Max)], "read 1003h:k, k <= count: the k-th newest activation"); __CPROVER_assert(0, "REACH:a"); }
    else { __CPROVER_assert(e != CO_ERR_NONE, "read 1003h:k, k > count: no data (abort)"); __CPROVER_assert(0, "REACH:b"); }
    __CPROVER_assert(wf_hist() && HI.Off == h0.Off && HI.Num == h0.Num && (G_K > HD || V_HVAL[G_K] == v0[G_K]), "read: the history is unchanged");
#elif VW_OP == 3
    __CPROVER_assume(H_SUB <= H_MAXN);
    CO_ERR e = COTEmcyHistWrite(&V_H[H_SUB], &V_NODE, &H_W8, 1);
    if (H_SUB == 0 && H_W8 == 0) { __CPROVER_assert(e == CO_ERR_NONE && wf_hist() && HI.Num == 0 && (G_K > H_MAXN || V_HVAL[G_K] == 0), "writing 0 to 1003h:0 clears the history"); __CPROVER_assert(0, "REACH:a"); }
    else { __CPROVER_assert(e != CO_ERR_NONE && wf_hist() && HI.Off == h0.Off && HI.Num == h0.Num && (G_K > HD || V_HVAL[G_K] == v0[G_K]), "any other write is refused and changes nothing"); __CPROVER_assert(0, "REACH:b"); }
#else
    V_HV0 = 0;
    CO_ERR e = COTEmcyHistInit(&V_H[0], &V_NODE);
    __CPROVER_assert(e == CO_ERR_NONE && HI.Max == H_MAXN && HI.Num == 0 && HI.Off == 0, "init: the depth is the number of contiguous entries 1003h:1.., the history is empty");
    __CPROVER_assert(0, "REACH:a"); __CPROVER_assert(0, "REACH:b");
#endif
    __CPROVER_assert(0, "REACH:post");
}
