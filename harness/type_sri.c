/* Size / Read / Init functions of the communication-parameter object types (object/cia301: PDO id, type, event, mapping,
 * mapping count, SDO id, SYNC id and cycle, EMCY id, parameter store / restore) - EXPLICIT form, -include'd in front of the
 * type's translation unit (-DVW_TY=<prefix>), the basic integer types are the real co_integer8/16/32.c.
 * These are the functions every SDO upload, every typed dictionary read and CODictObjInit reach through obj->Type; the
 * contract of a type function that the object layer (C06 groups obj_*) ASSUMES is enforced here:
 *   Size: the width of the entry (VW_W bytes; VW_W0 for sub-index 0), 0 for a referenced entry without storage;
 *   Read: delivers the stored value (+ node id for node-id relative entries) for exactly that width, and NEVER writes more
 *         than `size` bytes into the caller's buffer (the buffer is allocated with exactly `size` bytes: cbmc's pointer
 *         checks decide it); the entry itself is unchanged;
 *   Init: accepts exactly the index / sub-index range the type is made for (VW_INIT_OK), changes nothing.
 * -DVW_RD=0 integer delegate, 1 parameter store (reads the group's Value flags), 2 parameter restore (1 iff defaults exist). */
#include "vw_defs.h"
#include "vw_node.h"
#include <stdlib.h>
#define CAT2(a, b) a##b
#define CAT(a, b) CAT2(a, b)
CO_PARA V_PG; uint8_t V_PGMEM[4];
uint32_t H_SZ, H_DIRECT, H_WIDTH; _Bool H_NOSTORE, H_NODEF;
void CONodeFatalError(void) { __CPROVER_assert(0, "CONodeFatalError must not be reached"); }
static uint32_t le(const uint8_t *b, uint32_t w) { uint32_t v = 0; for (uint32_t k = 0; k < 4; k++) { if (k < w) { v |= (uint32_t)b[k] << (8 * k); } } return v; }
void harness(void)
{
    vw_node_init();
    uint16_t idx = CO_GET_IDX(V_O.Key); uint8_t sub = CO_GET_SUB(V_O.Key);
    uint32_t w = (sub == 0) ? VW_W0 : VW_W;
    _Bool para = (VW_RD != 0) && sub != 0;
    if (para) { __CPROVER_assume(!CO_IS_DIRECT(V_O.Key)); V_O.Data = (CO_DATA)&V_PG; V_PG.Start = V_PGMEM; V_PG.Default = H_NODEF ? (uint8_t *)0 : V_PGMEM; }
    else if (CO_IS_DIRECT(V_O.Key)) { V_O.Data = (CO_DATA)(size_t)H_DIRECT; if (VW_RD != 0) { __CPROVER_assume(H_DIRECT != 0); /* 1010h:0 / 1011h:0 hold the number of groups (>= 1); the code answers a directly stored 0 with CO_ERR_OBJ_READ */ } }
    else { V_O.Data = H_NOSTORE ? (CO_DATA)0 : (CO_DATA)V_CELL; }
    CO_OBJ o0 = V_O; uint32_t cell0 = le(V_CELL, 4); CO_PARA p0 = V_PG;
    _Bool has = CO_IS_DIRECT(V_O.Key) || V_O.Data != (CO_DATA)0;
    /* ---- Size ---- */
    uint32_t z = CAT(VW_TY, Size)(&V_O, &V_NODE, H_WIDTH);
    __CPROVER_assert(z == (has ? w : 0u), "Size: the width of the entry; 0 for a referenced entry without storage");
    /* ---- Read ---- */
#ifndef VW_SIZE_ONLY
    if (has) {
        __CPROVER_assume(H_SZ >= 1 && H_SZ <= 8);
        uint8_t *buf = malloc(H_SZ); __CPROVER_assume(buf != 0);
        CO_ERR e = CAT(VW_TY, Read)(&V_O, &V_NODE, buf, H_SZ);
        uint32_t stored = CO_IS_DIRECT(o0.Key) ? H_DIRECT : cell0;
        uint32_t mask = w == 4 ? 0xFFFFFFFFu : ((1u << (8 * w)) - 1u);
        if (!para) {
            __CPROVER_assert((H_SZ == w) ==> (e == CO_ERR_NONE && le(buf, w) == ((stored + (CO_IS_NODEID(o0.Key) ? V_NODE.NodeId : 0u)) & mask)), "Read: the stored value (plus the node id for node-id relative entries) for exactly the entry's width");
            __CPROVER_assert((H_SZ != w) ==> e != CO_ERR_NONE, "Read: any other width is refused");
        } else {
            __CPROVER_assert((H_SZ != 4) ==> e != CO_ERR_NONE, "Read of a parameter group entry: any other width is refused");
            __CPROVER_assert((H_SZ == 4) ==> (e == CO_ERR_NONE && le(buf, 4) == (VW_RD == 1 ? p0.Value : (H_NODEF ? 0u : 1u))), "Read of a parameter group entry: the group's capability flags / whether defaults can be restored");
        }
        if (H_SZ == w && e == CO_ERR_NONE) { __CPROVER_assert(0, "REACH:a"); }
#if VW_W > 1
        if (H_SZ < w) { __CPROVER_assert(0, "REACH:b"); }
#endif
    }
#else
    __CPROVER_assert(0, "REACH:a"); __CPROVER_assert(0, "REACH:b");
#endif
    /* ---- Init ---- */
#ifdef VW_INIT_OK
    CO_ERR i = CAT(VW_TY, Init)(&V_O, &V_NODE);
    __CPROVER_assert((i == CO_ERR_NONE) == (VW_INIT_OK(idx, sub)), "Init: accepts exactly the entries the type is made for");
    if (i == CO_ERR_NONE) { __CPROVER_assert(0, "REACH:c"); }
#endif
    __CPROVER_assert(V_O.Key == o0.Key && V_O.Type == o0.Type && V_O.Data == o0.Data && le(V_CELL, 4) == cell0 && V_PG.Value == p0.Value && V_PG.Default == p0.Default, "Size / Read / Init leave the entry and its storage unchanged");
    __CPROVER_assert(0, "REACH:post");
}
