/* PDO parameter object types (co_pdo_id/map/num/type/event.c) in EXPLICIT form: -include'd in front of the type's TU
 * (static functions).  The object written is V_O (UNSIGNED32/8/16 storage in V_CELL, real integer code inline); the
 * rest of the dictionary through stubs: H_ID = COB-ID 1400h/1800h+n:1 of the PDO, H_MAPN = stored mapping count,
 * H_MAPENT[i] = stored mapping entries, V_MOBJ = the object a mapping value names (or none).
 * -DVW_OP=0 IdWrite 1 MapWrite 2 NumWrite 3 TypeWrite 4 EventWrite.  Property C14. */
#include "vw_defs.h"
#include "vw_node.h"
#include "nmt.h"
uint32_t H_ID; _Bool H_ID_OK; uint8_t H_MAPN; _Bool H_MAPN_OK; uint32_t H_MAPENT[9]; _Bool H_MAPENT_OK[9]; CO_OBJ V_MOBJ; _Bool H_MOBJ;
uint32_t H_NEW32; uint8_t H_NEW8; uint16_t H_NEW16; uint16_t H_IDX; uint8_t H_SUB;
uint32_t N_TRESET, N_RRESET, N_TDEL, N_TCRE, N_TX; uint16_t A_RESETNUM; int16_t H_TID, H_DELRES;
CO_ERR CODictRdLong(CO_DICT *cod, uint32_t key, uint32_t *val)
{
    __CPROVER_assert(cod == &V_NODE.Dict && val != 0, "CODictRdLong requires");
    uint16_t com = (H_IDX >= 0x1600 && H_IDX < 0x1800) || H_IDX >= 0x1A00 ? H_IDX - 0x200 : H_IDX;
    if (DEV(key) == CO_DEV(com, 1)) { if (H_ID_OK) { *val = H_ID; return CO_ERR_NONE; } return CO_ERR_OBJ_NOT_FOUND; }
    for (int i = 1; i <= 8; i++) { if (DEV(key) == CO_DEV(H_IDX, i)) { if (H_MAPENT_OK[i]) { *val = H_MAPENT[i]; return CO_ERR_NONE; } return CO_ERR_OBJ_NOT_FOUND; } }
    return CO_ERR_OBJ_NOT_FOUND;
}
CO_ERR CODictRdByte(CO_DICT *cod, uint32_t key, uint8_t *val)
{
    __CPROVER_assert(cod == &V_NODE.Dict && val != 0, "CODictRdByte requires");
    if (DEV(key) == CO_DEV(H_IDX, 0) && H_MAPN_OK) { *val = H_MAPN; return CO_ERR_NONE; }
    return CO_ERR_OBJ_NOT_FOUND;
}
CO_OBJ *CODictFind(CO_DICT *cod, uint32_t key) { __CPROVER_assert(cod == &V_NODE.Dict, "CODictFind requires"); if (H_MOBJ && DEV(V_MOBJ.Key) == DEV(key) && DEV(key) != 0) { return &V_MOBJ; } return 0; }
void COTPdoReset(CO_TPDO *pdo, uint16_t num) { __CPROVER_assert(pdo == V_NODE.TPdo && num < CO_TPDO_N, "COTPdoReset requires: a configured TPDO number"); N_TRESET++; A_RESETNUM = num; }
CO_ERR CORPdoReset(CO_RPDO *pdo, uint16_t num) { __CPROVER_assert(pdo == V_NODE.RPdo && num < CO_RPDO_N, "CORPdoReset requires: a configured RPDO number"); N_RRESET++; A_RESETNUM = num; return CO_ERR_NONE; }
void COTPdoTrigObj(CO_TPDO *pdo, struct CO_OBJ_T *obj) { }
void COTPdoTx(CO_TPDO *pdo) { N_TX++; }
void COTPdoTmrEvent(void *parg) { }
int16_t COTmrDelete(CO_TMR *tmr, int16_t actId) { __CPROVER_assert(tmr == &V_NODE.Tmr && actId >= 0, "COTmrDelete requires"); N_TDEL++; __CPROVER_assume(H_DELRES == 0 || H_DELRES == -1); return H_DELRES; }
int16_t COTmrCreate(CO_TMR *tmr, uint32_t s, uint32_t c, CO_TMR_FUNC f, void *p) { __CPROVER_assert(tmr == &V_NODE.Tmr, "COTmrCreate requires"); N_TCRE++; __CPROVER_assume(H_TID >= -1); return H_TID; }
uint32_t COTmrGetTicks(CO_TMR *tmr, uint16_t time, uint32_t unit) { uint32_t t; __CPROVER_assume((time == 0) == (t == 0)); return t; }
#define VALID(id) (((id) & 0x80000000u) == 0)
void harness(void)
{
    vw_node_init();
    __CPROVER_assume(WF_NMT());
    N_TRESET = N_RRESET = N_TDEL = N_TCRE = N_TX = 0;
    /* the entry being written: referenced storage, flags free */
    V_O.Key = CO_KEY(H_IDX, H_SUB, V_O.Key & 0x7F & ~CO_OBJ__N____); V_O.Data = (CO_DATA)V_CELL;
    _Bool rp; uint32_t old32 = *(uint32_t *)V_CELL; uint8_t old8 = V_CELL[0];
#if VW_OP == 0
    __CPROVER_assume(((H_IDX >= 0x1400 && H_IDX < 0x1600) || (H_IDX >= 0x1800 && H_IDX < 0x1A00)) && H_SUB == 1);
    rp = H_IDX < 0x1600; uint16_t num = H_IDX & 0x1FF;
    CO_ERR e = COTPdoIdWrite(&V_O, &V_NODE, &H_NEW32, 4);
    _Bool ok = (H_NEW32 & (1u << 29)) == 0 && (rp || (H_NEW32 & (1u << 30)) != 0) && (VALID(old32) ? !VALID(H_NEW32) : 1);
    __CPROVER_assert((e == CO_ERR_NONE) == ok, "COB-ID write accepted exactly when: no extended id, RTR not allowed (TPDO), and a valid PDO is only marked invalid");
    __CPROVER_assert(!ok ==> (e == CO_ERR_OBJ_RANGE && *(uint32_t *)V_CELL == old32 && N_TRESET + N_RRESET == 0), "refused COB-ID write: 0609 0030h, stored value unchanged, PDO untouched");
    __CPROVER_assert(ok ==> *(uint32_t *)V_CELL == H_NEW32, "accepted COB-ID write is stored as written");
    __CPROVER_assert((ok && V_NODE.Nmt.Mode == CO_OPERATIONAL && (VALID(old32) || VALID(H_NEW32)) && num < (rp ? CO_RPDO_N : CO_TPDO_N)) ==> ((rp ? N_RRESET : N_TRESET) == 1 && A_RESETNUM == num && (rp ? N_TRESET : N_RRESET) == 0), "in OPERATIONAL the PDO is re-activated / de-activated at once, exactly that PDO");
    __CPROVER_assert(V_NODE.Nmt.Mode != CO_OPERATIONAL ==> N_TRESET + N_RRESET == 0, "outside OPERATIONAL nothing is activated");
    if (ok && N_TRESET == 1) { __CPROVER_assert(0, "REACH:a"); }
    if (!ok) { __CPROVER_assert(0, "REACH:b"); }
#elif VW_OP == 1
    __CPROVER_assume(((H_IDX >= 0x1600 && H_IDX < 0x1800) || (H_IDX >= 0x1A00 && H_IDX < 0x1C00)) && H_SUB >= 1 && H_SUB <= 8);
    rp = H_IDX < 0x1800;
    __CPROVER_assume(H_ID_OK && H_MAPN_OK);      /* the PDO's communication record and mapping count exist (well-formed dictionary) */
    CO_ERR e = COTPdoMapWrite(&V_O, &V_NODE, &H_NEW32, 4);
    _Bool exists = H_MOBJ && DEV(V_MOBJ.Key) == DEV(H_NEW32) && DEV(H_NEW32) != 0;
    _Bool ok = !VALID(H_ID) && H_MAPN == 0 && exists && CO_IS_PDOMAP(V_MOBJ.Key) != 0 && (rp ? CO_IS_WRITE(V_MOBJ.Key) != 0 : CO_IS_READ(V_MOBJ.Key) != 0);
    __CPROVER_assert((e == CO_ERR_NONE) == ok, "mapping entry accepted exactly when: PDO invalid, count zero, object exists, is mappable and grants the access");
    __CPROVER_assert(!ok ==> *(uint32_t *)V_CELL == old32, "refused mapping write leaves the stored entry unchanged");
    __CPROVER_assert((!ok && !VALID(H_ID) && H_MAPN == 0) ==> e == CO_ERR_OBJ_MAP_TYPE, "unmappable / missing / wrong-access object: 0604 0041h");
    __CPROVER_assert(ok ==> *(uint32_t *)V_CELL == H_NEW32, "accepted mapping entry is stored as written");
    if (ok) { __CPROVER_assert(0, "REACH:a"); }
    if (e == CO_ERR_OBJ_MAP_TYPE) { __CPROVER_assert(0, "REACH:b"); }
#elif VW_OP == 2
    __CPROVER_assume(((H_IDX >= 0x1600 && H_IDX < 0x1800) || (H_IDX >= 0x1A00 && H_IDX < 0x1C00)) && H_SUB == 0);
    __CPROVER_assume(H_ID_OK);
    CO_ERR e = COTPdoNumWrite(&V_O, &V_NODE, &H_NEW8, 1);
    uint32_t bytes = 0; _Bool allok = 1;
    for (int i = 1; i <= 8; i++) { if (i <= H_NEW8) { if (!H_MAPENT_OK[i]) { allok = 0; } bytes += (uint8_t)H_MAPENT[i] >> 3; } }
    _Bool ok = !VALID(H_ID) && H_NEW8 <= 8 && allok && bytes <= 8;
    __CPROVER_assert((e == CO_ERR_NONE) == ok, "mapping count accepted exactly when: PDO invalid, at most 8 entries, all entries exist, at most 8 mapped bytes");
    __CPROVER_assert(!ok ==> V_CELL[0] == old8, "refused count write leaves the stored count unchanged");
    __CPROVER_assert((!VALID(H_ID) && (H_NEW8 > 8 || (allok && bytes > 8))) ==> e == CO_ERR_OBJ_MAP_LEN, "too many entries / bytes: 0604 0042h");
    __CPROVER_assert(ok ==> V_CELL[0] == H_NEW8, "accepted count is stored as written");
    if (ok && H_NEW8 == 8) { __CPROVER_assert(0, "REACH:a"); }
    if (e == CO_ERR_OBJ_MAP_LEN && H_NEW8 == 3) { __CPROVER_assert(0, "REACH:b"); }
#elif VW_OP == 3
    __CPROVER_assume(((H_IDX >= 0x1400 && H_IDX < 0x1600) || (H_IDX >= 0x1800 && H_IDX < 0x1A00)) && H_SUB == 2);
    __CPROVER_assume(H_ID_OK);
    CO_ERR e = COTPdoTypeWrite(&V_O, &V_NODE, &H_NEW8, 1);
    __CPROVER_assert((e == CO_ERR_NONE) == !VALID(H_ID), "transmission type changes only while the PDO is invalid");
    __CPROVER_assert(VALID(H_ID) ==> V_CELL[0] == old8, "refused type write leaves the stored type unchanged");
    __CPROVER_assert(!VALID(H_ID) ==> V_CELL[0] == H_NEW8, "accepted type is stored as written");
    if (e == CO_ERR_NONE) { __CPROVER_assert(0, "REACH:a"); }
    if (e != CO_ERR_NONE) { __CPROVER_assert(0, "REACH:b"); }
#else
    __CPROVER_assume(H_IDX >= 0x1800 && H_IDX < 0x1A00 && H_SUB == 5);
    uint16_t num = H_IDX & 0x1FF;
    /* WF_PDO: timer ids are -1 or valid; inhibited only while the inhibit action exists (established by COTPdoTx, group tpdo_tx) */
    __CPROVER_assume(num >= CO_TPDO_N || (V_NODE.TPdo[num].EvTmr >= -1 && V_NODE.TPdo[num].InTmr >= -1 && ((V_NODE.TPdo[num].Flags & CO_TPDO_FLG__I_) != 0 ==> V_NODE.TPdo[num].InTmr >= 0)));
    CO_TPDO p0 = V_NODE.TPdo[num < CO_TPDO_N ? num : 0];
    CO_ERR e = COTPdoEventWrite(&V_O, &V_NODE, &H_NEW16, 2);
    if (num < CO_TPDO_N) {
        CO_TPDO *p = &V_NODE.TPdo[num];
        /* no stale timer ids: an id that was deleted is forgotten; never inhibited without inhibit action */
        __CPROVER_assert((p0.EvTmr >= 0) ==> (p->EvTmr != p0.EvTmr || N_TCRE > 0), "a deleted event action is not remembered");
        __CPROVER_assert((p0.InTmr >= 0 && e == CO_ERR_NONE) ==> (p->InTmr != p0.InTmr || N_TX > 0), "a deleted inhibit action is not remembered");
        __CPROVER_assert((e == CO_ERR_NONE && N_TX == 0) ==> ((p->Flags & CO_TPDO_FLG__I_) != 0 ==> p->InTmr >= 0), "the TPDO is inhibited only while an inhibit action exists");
        __CPROVER_assert((e == CO_ERR_NONE && (p0.Flags & CO_TPDO_FLG___E) != 0 && p0.InTmr >= 0 && H_ID_OK && VALID(H_ID) && V_NODE.Nmt.Mode == CO_OPERATIONAL) ==> N_TX == 1, "a trigger waiting for the end of the inhibit time is not lost");
    } else {
        __CPROVER_assert(N_TDEL + N_TCRE + N_TX == 0, "a TPDO number beyond the configuration touches nothing");
    }
    if (N_TDEL == 2) { __CPROVER_assert(0, "REACH:a"); }
    if (N_TCRE == 1) { __CPROVER_assert(0, "REACH:b"); }
#endif
    __CPROVER_assert(0, "REACH:post");
}
