/* node glue (co_core.c CONodeInit / CONodeStart / CONodeStop / CONodeGetErr) - properties C01, C20 (the "fresh start"
 * side of the equivalence); EXPLICIT form over order-stamping stubs of every service initialisation (their own
 * contracts are the groups of the respective service).  -DVW_OP=0 Init 1 Start 2 Stop 3 GetErr. */
#include "vw_defs.h"
#include "vw_node.h"
uint32_t G_SEQ; uint32_t O_LSSLOAD, O_IFINIT, O_TMRINIT, O_DICTINIT, O_NMTINIT, O_SDOINIT, O_CSDOINIT, O_TCLR, O_RCLR, O_EMCY, O_SYNC, O_LSSINIT, O_OBJINIT, O_CANEN, O_BOOT, O_TMRCLR, O_SETMODE, O_CLOSE;
int16_t H_DICTRES; CO_ERR H_LSSRES, H_OBJRES; uint32_t A_BAUD, A_TMRNUM, A_FREQ; CO_MODE A_MODE, H_MODE; void *A_DICT, *A_EMCYCODE, *A_TMRMEM; uint16_t A_DICTLEN;
#define STAMP(x) do { G_SEQ++; x = G_SEQ; } while (0)
CO_ERR COLssLoad(uint32_t *baudrate, uint8_t *nodeId) { __CPROVER_assert(baudrate == &V_NODE.Baudrate && nodeId == &V_NODE.NodeId, "COLssLoad requires"); STAMP(O_LSSLOAD); return H_LSSRES; }
void COIfInit(CO_IF *cif, struct CO_NODE_T *node, uint32_t freq) { __CPROVER_assert(cif == &V_NODE.If && node == &V_NODE, "COIfInit requires"); STAMP(O_IFINIT); A_FREQ = freq; }
void COTmrInit(CO_TMR *tmr, struct CO_NODE_T *node, CO_TMR_MEM *mem, uint16_t num, uint32_t freq) { __CPROVER_assert(tmr == &V_NODE.Tmr && node == &V_NODE, "COTmrInit requires"); STAMP(O_TMRINIT); A_TMRMEM = mem; A_TMRNUM = num; }
int16_t CODictInit(CO_DICT *cod, struct CO_NODE_T *node, CO_OBJ *root, uint16_t max) { __CPROVER_assert(cod == &V_NODE.Dict && node == &V_NODE, "CODictInit requires"); STAMP(O_DICTINIT); A_DICT = root; A_DICTLEN = max; return H_DICTRES; }
void CONmtInit(CO_NMT *nmt, struct CO_NODE_T *node) { __CPROVER_assert(nmt == &V_NODE.Nmt && node == &V_NODE, "CONmtInit requires"); STAMP(O_NMTINIT); }
void COSdoInit(CO_SDO *srv, struct CO_NODE_T *node) { __CPROVER_assert(srv == V_NODE.Sdo && node == &V_NODE, "COSdoInit requires"); STAMP(O_SDOINIT); }
void COCSdoInit(CO_CSDO *csdo, struct CO_NODE_T *node) { __CPROVER_assert(csdo == V_NODE.CSdo && node == &V_NODE, "COCSdoInit requires"); STAMP(O_CSDOINIT); }
void COTPdoClear(CO_TPDO *pdo, CO_NODE *node) { __CPROVER_assert(pdo == V_NODE.TPdo && node == &V_NODE, "COTPdoClear requires"); STAMP(O_TCLR); }
void CORPdoClear(CO_RPDO *pdo, CO_NODE *node) { __CPROVER_assert(pdo == V_NODE.RPdo && node == &V_NODE, "CORPdoClear requires"); STAMP(O_RCLR); }
void COEmcyInit(CO_EMCY *emcy, struct CO_NODE_T *node, CO_EMCY_TBL *root) { __CPROVER_assert(emcy == &V_NODE.Emcy && node == &V_NODE, "COEmcyInit requires"); STAMP(O_EMCY); A_EMCYCODE = root; }
void COSyncInit(CO_SYNC *sync, struct CO_NODE_T *node) { __CPROVER_assert(sync == &V_NODE.Sync && node == &V_NODE, "COSyncInit requires"); STAMP(O_SYNC); }
void COLssInit(CO_LSS *lss, struct CO_NODE_T *node) { __CPROVER_assert(lss == &V_NODE.Lss && node == &V_NODE, "COLssInit requires"); STAMP(O_LSSINIT); }
CO_ERR CODictObjInit(CO_DICT *cod, struct CO_NODE_T *node) { __CPROVER_assert(cod == &V_NODE.Dict && node == &V_NODE, "CODictObjInit requires"); STAMP(O_OBJINIT); return H_OBJRES; }
void COIfCanEnable(CO_IF *cif, uint32_t baudrate) { __CPROVER_assert(cif == &V_NODE.If, "COIfCanEnable requires"); STAMP(O_CANEN); A_BAUD = baudrate; }
CO_MODE CONmtGetMode(CO_NMT *nmt) { __CPROVER_assert(nmt == &V_NODE.Nmt, "CONmtGetMode requires"); return H_MODE; }
void CONmtBootup(CO_NMT *nmt) { __CPROVER_assert(nmt == &V_NODE.Nmt, "CONmtBootup requires"); STAMP(O_BOOT); }
void COTmrClear(CO_TMR *tmr) { __CPROVER_assert(tmr == &V_NODE.Tmr, "COTmrClear requires"); STAMP(O_TMRCLR); }
void CONmtSetMode(CO_NMT *nmt, CO_MODE mode) { __CPROVER_assert(nmt == &V_NODE.Nmt, "CONmtSetMode requires"); STAMP(O_SETMODE); A_MODE = mode; }
void COIfCanClose(CO_IF *cif) { __CPROVER_assert(cif == &V_NODE.If, "COIfCanClose requires"); STAMP(O_CLOSE); }
CO_NODE_SPEC H_SPEC; CO_OBJ V_D0[2]; CO_TMR_MEM V_TM[2]; CO_EMCY_TBL V_ET[2]; uint8_t V_SB[8];
void harness(void)
{
    G_SEQ = 0;
#if VW_OP == 0
    H_SPEC.Dict = V_D0; H_SPEC.Drv = &V_DRV; H_SPEC.TmrMem = V_TM; H_SPEC.EmcyCode = V_ET; H_SPEC.SdoBuf = V_SB;
    CONodeInit(&V_NODE, &H_SPEC);
    __CPROVER_assert(V_NODE.If.Drv == &V_DRV && V_NODE.SdoBuf == V_SB && V_NODE.Nmt.Tmr == -1, "init: drivers, SDO buffer taken from the specification; no heartbeat timer yet");
    __CPROVER_assert(O_LSSLOAD == 1 && O_IFINIT == 2 && O_TMRINIT == 3 && O_DICTINIT == 4 && A_DICT == (void *)V_D0 && A_DICTLEN == H_SPEC.DictLen && A_TMRMEM == (void *)V_TM && A_TMRNUM == H_SPEC.TmrNum && A_FREQ == H_SPEC.TmrFreq, "init: stored LSS settings, interface, timer, dictionary - in this order, with the arguments of the specification");
    if (H_DICTRES < 0) {
        __CPROVER_assert(V_NODE.Error == CO_ERR_DICT_INIT && G_SEQ == 4, "init: a bad dictionary is reported and nothing is started on it");
        __CPROVER_assert(0, "REACH:b");
    } else {
        __CPROVER_assert(O_NMTINIT == 5 && O_SDOINIT == 6 && O_CSDOINIT == 7 && O_TCLR == 8 && O_RCLR == 9 && O_EMCY == 10 && O_SYNC == 11 && O_LSSINIT == 12 && O_OBJINIT == 13 && O_CANEN == 14 && G_SEQ == 14,
                         "init: every service is initialised before the type initialisation of the dictionary entries, the CAN controller is enabled last");
        __CPROVER_assert(A_EMCYCODE == (void *)V_ET && A_BAUD == V_NODE.Baudrate, "init: emergency table of the specification; bit rate of the node");
        __CPROVER_assert(V_NODE.Error == (H_OBJRES != CO_ERR_NONE ? CO_ERR_OBJ_INIT : H_LSSRES != CO_ERR_NONE ? CO_ERR_LSS_LOAD : CO_ERR_NONE), "init: failures are reported as node error");
        __CPROVER_assert(0, "REACH:a");
    }
#elif VW_OP == 1
    CONodeStart(&V_NODE);
    __CPROVER_assert(G_SEQ == (H_MODE == CO_INIT ? 1u : 0u) && (H_MODE != CO_INIT || O_BOOT == 1), "start: boot-up exactly if the node is in INIT");
    if (H_MODE == CO_INIT) { __CPROVER_assert(0, "REACH:a"); } else { __CPROVER_assert(0, "REACH:b"); }
#elif VW_OP == 2
    CONodeStop(&V_NODE);
    __CPROVER_assert(O_TMRCLR == 1 && O_SETMODE == 2 && A_MODE == CO_INVALID && O_CLOSE == 3 && G_SEQ == 3, "stop: timers cleared, NMT invalid, CAN closed");
    __CPROVER_assert(0, "REACH:a"); __CPROVER_assert(0, "REACH:b");
#else
    CO_ERR e0 = V_NODE.Error;
    CO_ERR e = CONodeGetErr(&V_NODE);
    __CPROVER_assert(e == e0 && V_NODE.Error == CO_ERR_NONE && G_SEQ == 0, "get error: returns and clears the node error");
    __CPROVER_assert(0, "REACH:a"); __CPROVER_assert(0, "REACH:b");
#endif
    __CPROVER_assert(0, "REACH:post");
}
