/* native_shim.h - lets a verification harness (plain C + cbmc primitives) compile with gcc for counterexample replay */
#ifndef VW_NATIVE_SHIM
#define VW_NATIVE_SHIM
#include <stdio.h>
#include <stdlib.h>
#define VW_NATIVE 1
static int vw_failed;
#define __CPROVER_assume(c) do { if (!(c)) { fprintf(stderr, "NATIVE: assumption not met at %s:%d\n", __FILE__, __LINE__); exit(77); } } while (0)
#define __CPROVER_assert(c, msg) do { if (!(c)) { if (!((msg)[0] == 'R' && (msg)[1] == 'E' && (msg)[2] == 'A' && (msg)[3] == 'C' && (msg)[4] == 'H' && (msg)[5] == ':')) { fprintf(stderr, "NATIVE-FAIL: %s\n", (msg)); vw_failed = 1; } } } while (0)
#define __CPROVER_r_ok(...) 1
#define __CPROVER_w_ok(...) 1
#define __CPROVER_rw_ok(...) 1
#define __CPROVER_havoc_object(p) ((void)0)
#define __CPROVER_havoc_slice(p, n) ((void)0)
#define __CPROVER_same_object(a, b) 1
#define __CPROVER_POINTER_OFFSET(p) ((size_t)0)
#define __CPROVER_POINTER_OBJECT(p) ((size_t)0)
#define __CPROVER_requires(...)
#define __CPROVER_ensures(...)
#define __CPROVER_assigns(...)
#define __CPROVER_frees(...)
#define __CPROVER_loop_invariant(...)
#define __CPROVER_decreases(...)
#define __CPROVER_bool _Bool
#endif
