#!/usr/bin/env python3
"""regenerates MANIFEST.json from obl/properties_meta.json (claimed properties) — run by hand after edits"""
import json, os, subprocess
V = os.path.dirname(os.path.dirname(os.path.abspath(__file__)))
meta = json.load(open(os.path.join(V, "obl", "properties_meta.json")))
props = [json.loads(l) for l in open(os.path.join(V, "properties.jsonl"))]
hooks = subprocess.run(["git", "-C", "/repo", "log", "--format=%H", "--grep=^verif hook"], stdout=subprocess.PIPE).stdout.decode().split()
checks, na = [], []
for p in props:
    pid = p["id"]
    m = meta.get(pid)
    if not m or m.get("not_applicable"):
        na.append(dict(property_id=pid, reason=(m or {}).get("not_applicable", "no contract-based check built yet for this property (work in progress; see DESIGN.md)")))
        continue
    checks.append(dict(
        property_id=pid, quick_cmd="./check %s quick" % pid, thorough_cmd="./check %s thorough" % pid,
        evidence_file="/verif/evidence/%s.json" % pid, replay_cmd_template="./check %s --replay {path}" % pid,
        engine="cbmc-contracts",
        level_claimed=dict(category=m.get("level", "proof"), text=m["level_text"], design_ref=m.get("design_ref", "DESIGN.md section 5, " + pid)),
        level_note=m["level_note"], technique=m.get("technique", "CBMC function and loop contracts on the real C code (goto-instrument --dfcc), SAT")))
man = dict(version=1,
  setup_cmd="true",
  hooks=dict(guard="CO_VERIF",
             enable="goto-cc -DCO_VERIF -I/verif/contracts (co_types.h then includes /verif/contracts/co_verif.h, which maps CO_VERIF_GHOST(name) hooks to ghost statements); function contracts need no hook (separate declarations -include'd), loop contracts are injected by the preprocessor keyed function.ordinal",
             baseline_off_cmd="cmake -G Ninja -B /repo/_build -S /repo >/dev/null; cmake --build /repo/_build -- -k 0 >/dev/null 2>&1; ctest --test-dir /repo/_build -j8 --timeout 900",
             source_commits=hooks, add_only=True),
  engines=[dict(name="cbmc-contracts", path="/verif/check", serves_properties=[c["property_id"] for c in checks],
                kind_free_text="contract-based deductive verification: CBMC 6.11 code contracts (dfcc) on /repo's real C sources, per function, SAT back end")],
  checks=checks,
  notes="see DESIGN.md; known_findings.txt lists fixed/known defects; exit 2 of a check = undecided (timeout/rename), never a violation",
  not_applicable=na)
json.dump(man, open(os.path.join(V, "MANIFEST.json"), "w"), indent=1)
print("claimed:", [c["property_id"] for c in checks], "hooks:", len(hooks))
