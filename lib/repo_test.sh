#!/bin/bash
# builds /repo/_build and prints the number of passing tests (baseline: 250)
cd /repo && cmake --build _build -- -k 0 >/dev/null 2>&1; ctest --test-dir _build -j8 --timeout 900 2>&1 | grep -c 'Passed'
