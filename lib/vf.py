#!/usr/bin/env python3
"""Contract-verification driver for embedded-office/canopen-stack.

One *group* = one obligation set: a real /repo function F under its contract
(contracts live in /verif/contracts/*.h on separate declarations), compiled
from /repo's current working tree by goto-cc, instrumented by
goto-instrument (--dfcc --enforce-contract F --replace-call-with-contract G..
--apply-loop-contracts) and discharged by cbmc (SAT).  See DESIGN.md.
"""
import json, os, re, shutil, subprocess, sys, time, hashlib, glob
from concurrent.futures import ThreadPoolExecutor

VERIF = os.path.dirname(os.path.dirname(os.path.abspath(__file__)))
REPO = os.environ.get("VERIF_REPO", "/repo")
SRC = os.path.join(REPO, "src")
INCDIRS = ["core", "config", "hal", "object/basic", "object/cia301",
           "service/cia301", "service/cia305"]
SAFETY = ["--bounds-check", "--pointer-check", "--pointer-overflow-check",
          "--signed-overflow-check", "--div-by-zero-check",
          "--undefined-shift-check", "--pointer-primitive-check",
          "--unwinding-assertions"]
CBMC_VERSION = None


def sh(cmd, timeout=None, cwd=None, mem_gb=12):
    """run a command in its own process group, return (rc, stdout+stderr, seconds); rc=-9 on timeout (whole group killed)"""
    import signal
    t0 = time.time()
    pre = "ulimit -v %d; " % (mem_gb * 1024 * 1024)
    p = subprocess.Popen(["bash", "-c", pre + cmd], stdout=subprocess.PIPE, stderr=subprocess.STDOUT, cwd=cwd, start_new_session=True)
    try:
        out, _ = p.communicate(timeout=timeout)
        return p.returncode, out.decode("utf-8", "replace"), time.time() - t0
    except subprocess.TimeoutExpired:
        try:
            os.killpg(p.pid, signal.SIGKILL)
        except OSError:
            pass
        out, _ = p.communicate()
        return -9, (out or b"").decode("utf-8", "replace"), time.time() - t0


def q(s):
    return "'" + s.replace("'", "'\\''") + "'"


class GroupError(Exception):
    """infrastructure problem (compile error, rename, timeout): exit 2, never a violation"""


def incflags():
    return " ".join("-I" + os.path.join(SRC, d) for d in INCDIRS) + " -I" + os.path.join(VERIF, "contracts")


PRELUDE = """#define VW_PASTE2(a,b) a##b
#define VW_PASTE(a,b) VW_PASTE2(a,b)
#define while(...) while(__VA_ARGS__) VW_PASTE(VW_LOOP_, __LINE__)
#define for(...) for(__VA_ARGS__) VW_PASTE(VW_LOOP_, __LINE__)
"""


def show_loops(gb, cwd):
    rc, out, _ = sh("goto-instrument --show-loops %s" % gb, cwd=cwd, timeout=120)
    loops = {}
    cur = None
    for line in out.splitlines():
        m = re.match(r"Loop (\S+):", line)
        if m:
            cur = m.group(1)
            continue
        m = re.match(r"\s+file (\S+) line (\d+) function (\S+)", line)
        if m and cur:
            loops[cur] = (m.group(1), int(m.group(2)))
            cur = None
    return loops


def build_group(g, wd, tier):
    """compile the group's TUs from /repo's working tree; returns path of linked goto binary"""
    os.makedirs(wd, exist_ok=True)
    defs = ["-DCO_VERIF"] + ["-D" + d for d in g.get("defs", [])]
    defs += ["-D" + d for d in g.get("defs_" + tier, [])]
    ctr = " ".join("-include " + os.path.join(VERIF, "contracts", c) for c in g.get("contracts", []))
    base = "goto-cc -std=c99 %s %s -include %s %s" % (" ".join(q(d) for d in defs), incflags(),
                                                      os.path.join(VERIF, "contracts", "vw_pre.h"), ctr)
    objs = []
    loops = g.get("loops", {})
    # harness TU (may be force-included in front of a repo TU for static functions)
    harness = os.path.join(VERIF, "harness", g["harness"])
    if not os.path.exists(harness):
        raise GroupError("harness missing: " + harness)
    tus = list(g.get("tus", []))
    static_tu = g.get("static_tu")          # repo TU whose statics the harness needs
    if static_tu is None:
        rc, out, _ = sh("%s -c %s -o h.gb" % (base, q(harness)), cwd=wd, timeout=300)
        if rc != 0:
            raise GroupError("goto-cc harness failed:\n" + out[-3000:])
        objs.append("h.gb")
    for tu in tus + ([static_tu] if static_tu else []):
        path = os.path.join(SRC, tu)
        if not os.path.exists(path):
            raise GroupError("source file missing (renamed?): " + path)
        ob = re.sub(r"[^A-Za-z0-9]", "_", tu) + ".gb"
        pre = ("-include " + q(harness)) if tu == static_tu else ""
        mine = {k: v for k, v in loops.items() if loop_tu(k, g) == tu}
        if mine:
            # pass 1: find the source line of every contracted loop (function.ordinal -> line)
            rc, out, _ = sh("%s %s -c %s -o p1_%s" % (base, pre, q(path), ob), cwd=wd, timeout=300)
            if rc != 0:
                raise GroupError("goto-cc failed on %s:\n%s" % (tu, out[-3000:]))
            lmap = show_loops("p1_" + ob, wd)
            ldefs = []
            nlines = sum(1 for _ in open(path, errors="replace")) + 5
            for lid, macro in mine.items():
                if lid not in lmap:
                    raise GroupError("loop %s not found in %s (renamed or removed?)" % (lid, tu))
                f, ln = lmap[lid]
                if os.path.realpath(f) != os.path.realpath(path):
                    raise GroupError("loop %s is located in %s, not in %s" % (lid, f, path))
                ldefs.append("-DVW_LOOP_%d=%s" % (ln, macro))
            with open(os.path.join(wd, "lines_%s.h" % ob), "w") as fh:
                for i in range(1, nlines):
                    fh.write("#ifndef VW_LOOP_%d\n#define VW_LOOP_%d\n#endif\n" % (i, i))
                fh.write(PRELUDE)
            rc, out, _ = sh("%s %s %s -include lines_%s.h -c %s -o %s" %
                            (base, pre, " ".join(ldefs), ob, q(path), ob), cwd=wd, timeout=300)
        else:
            rc, out, _ = sh("%s %s -c %s -o %s" % (base, pre, q(path), ob), cwd=wd, timeout=300)
        if rc != 0:
            raise GroupError("goto-cc failed on %s:\n%s" % (tu, out[-3000:]))
        # callees defined in the SAME translation unit as the function under proof that the group replaces by a stub of
        # their contract (explicit form): the body is removed from the goto binary of the real TU on every run, the
        # harness supplies the stub.  A function that no longer exists is a rename: undecided.
        for fn in g.get("stub_bodies", {}).get(tu, []):
            rc, out, _ = sh("goto-instrument --list-goto-functions %s" % ob, cwd=wd, timeout=120)
            if not re.search(r"^%s\b" % re.escape(fn), out, re.M) and not re.search(r"\b%s\b" % re.escape(fn), out):
                raise GroupError("function %s not found in %s (renamed or removed?)" % (fn, tu))
            rc, out, _ = sh("goto-instrument --remove-function-body %s %s nb_%s && mv nb_%s %s" % (fn, ob, ob, ob, ob), cwd=wd, timeout=120)
            if rc != 0:
                raise GroupError("remove-function-body %s failed:\n%s" % (fn, out[-2000:]))
        objs.append(ob)
    rc, out, _ = sh("goto-cc --function harness %s -o a.gb" % " ".join(objs), cwd=wd, timeout=300)
    if rc != 0:
        raise GroupError("goto-cc link failed:\n" + out[-3000:])
    return "a.gb"


def loop_tu(loop_id, g):
    """which TU holds the loop: explicit map 'loop_tus' or the only TU"""
    lt = g.get("loop_tus", {})
    if loop_id in lt:
        return lt[loop_id]
    fn = loop_id.rsplit(".", 1)[0]
    if fn in lt:
        return lt[fn]
    if g.get("static_tu") and not g.get("tus"):
        return g["static_tu"]
    if len(g.get("tus", [])) == 1 and not g.get("static_tu"):
        return g["tus"][0]
    raise GroupError("group %s: cannot tell which TU holds loop %s (add loop_tus)" % (g["name"], loop_id))


def instrument(g, wd, gb):
    cur = gb
    log = []

    def step(cmd):
        rc, out, _ = sh(cmd, cwd=wd, timeout=600)
        log.append("$ " + cmd + "\n" + out)
        if rc != 0:
            raise GroupError("instrumentation failed: %s\n%s" % (cmd, out[-3000:]))

    if g.get("nondet_static"):
        step("goto-instrument --nondet-static %s n.gb" % cur)
        cur = "n.gb"
    uw = dict(g.get("unwind", {}))
    # loops of the code under proof that carry no loop contract are constant-bounded: unwind them unwind_all times with
    # unwinding assertions (ids resolved on every run).  Specification-side loops (vw_*, spec_*, harness) have constant
    # trip counts and are left to symex, which unwinds them exactly.
    if g.get("unwind_all"):
        contracted = set(g.get("loops", {}))
        for lid in show_loops(cur, wd):
            fn = lid.rsplit(".", 1)[0]
            if fn.startswith("vw_") or fn.startswith("spec_") or fn == "harness" or lid in contracted or lid in uw:
                continue
            uw[lid] = g["unwind_all"]
    if uw:
        us = ",".join("%s:%d" % (k, v) for k, v in uw.items())
        step("goto-instrument --unwindset %s --unwinding-assertions %s u.gb" % (us, cur))
        cur = "u.gb"
    if g.get("form", "dfcc") == "dfcc":
        cmd = "goto-instrument --dfcc harness"
        if g.get("enforce"):
            cmd += " --enforce-contract " + g["enforce"]
        # a callee that the code under proof no longer references has no symbol: its contract cannot (and need not) be
        # applied - the function's own postconditions then decide whether dropping the call was right
        rc, out, _ = sh("goto-instrument --list-symbols %s" % cur, cwd=wd, timeout=300)
        symbols = {l.split(" ", 1)[0] for l in out.splitlines()}
        for r in g.get("replace", []):
            if r.split("/")[0] in symbols:
                cmd += " --replace-call-with-contract " + r
            else:
                log.append("callee %s is not referenced any more: contract not applied" % r)
        for r in g.get("fp", []):
            cmd += " --restrict-function-pointer " + r
        if g.get("loops"):
            cmd += " --apply-loop-contracts"
        step(cmd + " %s b.gb" % cur)
        cur = "b.gb"
    else:
        cmd = "goto-instrument"
        for r in g.get("fp", []):
            cmd += " --restrict-function-pointer " + r
        if g.get("loops"):
            cmd += " --apply-loop-contracts"
        if cmd != "goto-instrument":
            step(cmd + " %s b.gb" % cur)
            cur = "b.gb"
    return cur, "\n".join(log)


def cbmc_cmd(g, gb, trace=False):
    flags = list(SAFETY)
    if g.get("no_pointer_primitive"):
        flags.remove("--pointer-primitive-check")
    flags += g.get("cbmc_flags", [])
    sat = g.get("sat") or os.environ.get("VERIF_SAT")
    if sat:
        flags.append("--sat-solver " + sat)
    flags.append("--object-bits %d" % g.get("object_bits", 10))
    if g.get("unwind_default"):
        flags.append("--unwind %d" % g["unwind_default"])
    if trace:
        flags.append("--trace")
    return "cbmc %s --json-ui %s" % (" ".join(flags), gb)


def parse_cbmc(out):
    """returns (results list, messages list) from --json-ui output"""
    try:
        start = out.index("[")
        data = json.loads(out[start:])
    except Exception:
        return None, [out[-2000:]]
    results, msgs = [], []
    for item in data:
        if "result" in item:
            results = item["result"]
        if "messageText" in item:
            msgs.append(item.get("messageType", "") + ": " + item["messageText"])
    return results, msgs


def run_group_uncached(g, tier, root_wd, keep=False):
    """returns dict(name, status ok|fail|error, obligations, failed[], reach_ok, secs, ...)"""
    t0 = time.time()
    wd = os.path.join(root_wd, g["name"])
    res = dict(name=g["name"], fn=g.get("enforce") or g.get("fn"), form=g.get("form", "dfcc"),
               bounded=g.get("bounded"), status="error", obligations=0, discharged=0,
               failed=[], secs=0.0, solver_s=0.0, detail="", replaced=g.get("replace", []),
               samples=[], cmd="", group_def=g)
    try:
        gb = build_group(g, wd, tier)
        # which real /repo functions are part of this group's obligations (function under contract + callees analysed inline)
        try:
            import covmap
            res["analysed"] = covmap.analysed_in(g, wd, gb)
        except Exception as e:
            res["analysed"] = []
            res["analysed_note"] = "call-graph analysis failed: %s" % str(e)[:200]
        cur, ilog = instrument(g, wd, gb)
        # vacuity (b): every contracted loop must have produced invariant obligations
        cmd = cbmc_cmd(g, cur)
        res["cmd"] = cmd
        to = g.get("timeout", 300) * 4      # generous: a slow machine must not turn a proof into "undecided"
        rc, out, secs = sh(cmd, cwd=wd, timeout=to, mem_gb=g.get("mem_gb", 12))
        res["solver_s"] = round(secs, 2)
        if rc == -9:
            raise GroupError("cbmc timed out after %ds (undecided)" % to)
        if "SAT checker ran out of memory" in out or "std::bad_alloc" in out:
            raise GroupError("cbmc ran out of memory (limit %d GB): undecided" % g.get("mem_gb", 12))
        results, msgs = parse_cbmc(out)
        if results is None or (not results and rc not in (0, 10)):
            raise GroupError("cbmc produced no result (rc=%s):\n%s" % (rc, "\n".join(msgs)[-3000:]))
        bad = [m for m in msgs if "no body for function" in m or "ignoring forall" in m
               or "ignoring exists" in m]
        allowed = set(g.get("nobody_ok", []))
        bad = [m for m in bad if not any(("function " + a) in m or ("'" + a + "'") in m for a in allowed)]
        if bad:
            raise GroupError("unsound abstraction in group %s: %s" % (g["name"], "; ".join(bad[:5])))
        reach_seen, reach_dead = [], []
        failed, n, ok, unknown = [], 0, 0, 0
        names = []
        for r in results:
            desc = r.get("description", "")
            st = r.get("status", "")
            if desc.startswith("REACH:"):
                reach_seen.append(desc)
                if st != "FAILURE":
                    reach_dead.append(desc)
                continue
            n += 1
            names.append(r.get("property", ""))
            if "loop invariant is preserved" in desc:
                names.append(r.get("property", "").split(".")[0] + ".loop_invariant_step(legacy)")
            if st == "SUCCESS":
                ok += 1
            elif st != "FAILURE":
                unknown += 1      # UNKNOWN: neither proved nor refuted in this run
            else:
                loc = r.get("sourceLocation", {})
                failed.append(dict(property=r.get("property", ""), description=desc, status=st,
                                   file=loc.get("file", ""), line=loc.get("line", ""),
                                   function=loc.get("function", "")))
        res["obligations"], res["discharged"] = n, ok
        res["failed"] = failed
        res["samples"] = [x for x in names if not x.startswith("__CPROVER")][:6]
        # vacuity guards
        for lid in g.get("loops", {}):
            fn = lid.rsplit(".", 1)[0]
            if not any(x.startswith(fn + ".loop_invariant_step") for x in names):
                raise GroupError("loop contract for %s was dropped (no loop_invariant_step obligation)" % lid)
        want = g.get("reach", ["post"])
        for w in want:
            if not any(d == "REACH:" + w for d in reach_seen):
                raise GroupError("reachability canary REACH:%s missing in group %s" % (w, g["name"]))
        if reach_dead and not failed:
            raise GroupError("vacuous: canary %s is unreachable (contradictory requires / stub?)" % reach_dead)
        if n < g.get("min_obligations", 1):
            raise GroupError("vacuous: only %d obligations" % n)
        if unknown and not failed:
            raise GroupError("%d obligations UNKNOWN (undecided) although none failed" % unknown)
        res["status"] = "ok" if not failed else "fail"
        if failed:
            # re-run with trace for the replay artefact
            rc2, out2, _ = sh(cbmc_cmd(g, cur, trace=True), cwd=wd, timeout=to, mem_gb=g.get("mem_gb", 12))
            res["trace_json"] = os.path.join(wd, "trace.json")
            with open(res["trace_json"], "w") as fh:
                fh.write(out2)
            keep = True
    except GroupError as e:
        res["status"] = "error"
        res["detail"] = str(e)
    res["secs"] = round(time.time() - t0, 2)
    res["wd"] = wd
    if not keep and res["status"] == "ok":
        shutil.rmtree(wd, ignore_errors=True)
    return res


# ---------------------------------------------------------------------------------------------------------------
# Several properties share obligation groups (the timer groups serve C07, C08, C10 and C01, ...).  A group result is
# a function of (the /repo source tree, the /verif machinery, the group definition, the tier): successful results
# are kept under build/cache keyed by the SHA-256 of exactly these inputs, so concurrently or successively running
# checks do not repeat the same proof.  Any change to /repo/src or to /verif changes the key: a check always decides
# the CURRENT working tree.  Undecided results are never cached; a failed group is cached together with its verifier trace.  VERIF_NOCACHE=1 switches this off.
# Heavy groups (mem_gb >= 20) additionally take one of VERIF_HEAVY (default 3) machine-wide slots.
_TREE_HASH = {}


def _hash_files(files):
    h = hashlib.sha256()
    for f in sorted(files):
        h.update(f.encode() + b"\0")
        with open(f, "rb") as fh:
            h.update(hashlib.sha256(fh.read()).digest())
    return h.hexdigest()


def _walk(root):
    out = []
    for dp, dn, fn in os.walk(root):
        dn[:] = [d for d in dn if d != "__pycache__"]
        out += [os.path.join(dp, f) for f in fn if not f.endswith(".pyc")]
    return out


def tree_hash(g):
    """hash of everything a group result depends on: /repo/src, /verif/contracts, the driver lib/vf.py, the group's harness"""
    if "base" not in _TREE_HASH:
        _TREE_HASH["base"] = _hash_files(_walk(SRC) + _walk(os.path.join(VERIF, "contracts")) + [os.path.join(VERIF, "lib", "vf.py")])
    hp = os.path.join(VERIF, "harness", g["harness"])
    if hp not in _TREE_HASH:
        _TREE_HASH[hp] = _hash_files([hp]) if os.path.exists(hp) else "missing"
    return _TREE_HASH["base"] + _TREE_HASH[hp]


def run_group(g, tier, root_wd, keep=False):
    import fcntl
    if os.environ.get("VERIF_NOCACHE"):
        return run_group_uncached(g, tier, root_wd, keep)
    cdir = os.path.join(VERIF, "build", "cache")
    os.makedirs(cdir, exist_ok=True)
    key = hashlib.sha256((tree_hash(g) + json.dumps({k: v for k, v in g.items() if k not in ("props", "cost")}, sort_keys=True, default=str) + (tier if ("defs_quick" in g or "defs_thorough" in g) else "")).encode()).hexdigest()[:32]
    cfile = os.path.join(cdir, key + ".json")
    with open(os.path.join(cdir, key + ".lock"), "w") as lk:
        fcntl.flock(lk, fcntl.LOCK_EX)
        if os.path.exists(cfile):
            try:
                res = json.load(open(cfile))
                res["cached"] = True
                res["group_def"] = g
                return res
            except Exception:
                pass
        slot = None
        if g.get("mem_gb", 12) >= 20:
            import random
            nslots = int(os.environ.get("VERIF_HEAVY", "3"))
            while slot is None:
                for i in random.sample(range(nslots), nslots):
                    fh = open(os.path.join(cdir, "heavy.%d" % i), "w")
                    try:
                        fcntl.flock(fh, fcntl.LOCK_EX | fcntl.LOCK_NB)
                        slot = fh
                        break
                    except OSError:
                        fh.close()
                if slot is None:
                    time.sleep(2)
        try:
            res = run_group_uncached(g, tier, root_wd, keep)
        finally:
            if slot is not None:
                slot.close()
        if res["status"] == "fail" and res.get("trace_json") and os.path.exists(res["trace_json"]):
            tcopy = os.path.join(cdir, key + ".trace.json")
            shutil.copy(res["trace_json"], tcopy)
            res["trace_json"] = tcopy
        if res["status"] in ("ok", "fail"):
            tmp = cfile + ".%d" % os.getpid()
            with open(tmp, "w") as fh:
                json.dump({k: v for k, v in res.items() if k != "group_def"}, fh)
            os.replace(tmp, cfile)
        return res
