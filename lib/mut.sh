#!/bin/bash
# usage: lib/mut.sh <file-rel-to-repo> <sed-expr> <check args...>  — run a check against a mutated scratch copy of /repo
set -e
F=$1; E=$2; shift 2
M=/tmp/vmut.$$; rm -rf $M; mkdir -p $M; cp -r /repo/src $M/src
sed -i "$E" $M/$F
if diff -q /repo/$F $M/$F >/dev/null; then echo "MUTATION DID NOT APPLY"; rm -rf $M; exit 3; fi
diff /repo/$F $M/$F || true
set +e
VERIF_REPO=$M /verif/check "$@"; rc=$?
rm -rf $M; echo "rc=$rc"; exit $rc
