"""native replay of a cbmc counterexample on the REAL code (explicit-form groups).

The verification harness of an explicit-form group is plain C: it establishes the pointer topology by assignment,
takes every scalar of the pre-state from nondet statics, calls the real function(s) of /repo and checks the clauses
with __CPROVER_assert.  For a replay the same harness and the same /repo translation units are compiled NATIVELY
(gcc, ASan + UBSan, no CO_VERIF hooks), the nondet statics are set to the values of the verifier's trace, and the
harness is run: the counterexample is reproduced if the same clause fails natively or a sanitizer reports an error.
cbmc-only syntax is mapped by native_shim.h (assume -> exit 77, assert -> report) and `a ==> b` is rewritten to
(!(a) || (b)).  Uninitialised (nondet) locals of stubs are zero (-ftrivial-auto-var-init=zero): a counterexample that
depends on a particular return value of a stubbed callee may therefore not reproduce - it is then reported as
no-failing-input-found."""
import os, re, subprocess, shutil, json
import vf, vtrace

SCALAR = re.compile(r"^(-?\d+)[uUlL]*$|^(TRUE|FALSE)$|^/\*enum\*/(\w+)$")


def rewrite_implies(src):
    """a ==> b  ->  (!(a) || (b)), operands delimited by the enclosing parenthesis / top-level comma / semicolon"""
    while True:
        i = src.rfind("==>")
        if i < 0:
            return src
        # left operand
        d, l = 0, i - 1
        while l >= 0:
            c = src[l]
            if c == ")":
                d += 1
            elif c == "(":
                if d == 0:
                    break
                d -= 1
            elif c in ",;{}" and d == 0:
                break
            elif c == "?" and d == 0:
                break
            l -= 1
        # right operand
        d, r = 0, i + 3
        while r < len(src):
            c = src[r]
            if c == "(":
                d += 1
            elif c == ")":
                if d == 0:
                    break
                d -= 1
            elif c in ",;" and d == 0:
                break
            r += 1
        left, right = src[l + 1:i], src[i + 3:r]
        src = src[:l + 1] + "(!(" + left + ") || (" + right + "))" + src[r:]


def c_inputs(inputs):
    out = []
    for lhs, v in inputs.items():
        m = SCALAR.match(v.strip())
        if not m or "$" in lhs or "::" in lhs or "#" in lhs:
            continue
        cv = m.group(1) if m.group(1) is not None else ("1" if m.group(2) == "TRUE" else "0") if m.group(2) else m.group(3)
        lhs_c = re.sub(r"\[(\d+)[lu]*\]", r"[\1]", lhs)
        if not re.match(r"^[A-Za-z_][\w\.\[\]]*$", lhs_c):
            continue
        out.append("    %s = %s;" % (lhs_c, cv))
    return out


def native_copy(path, wd):
    """copy of a /verif C source with ==> rewritten; #include "x" of /verif files are redirected to rewritten copies"""
    dst = os.path.join(wd, "n_" + os.path.basename(path))
    if os.path.exists(dst):
        return dst
    src = open(path, errors="replace").read()
    open(dst, "w").write("")          # recursion guard

    def inc(m):
        name = m.group(1)
        for d in (os.path.dirname(path), os.path.join(vf.VERIF, "contracts"), os.path.join(vf.VERIF, "harness")):
            p = os.path.join(d, name)
            if os.path.exists(p):
                return '#include "%s"' % native_copy(p, wd)
        return m.group(0)
    src = re.sub(r'#include\s+"([^"]+)"', inc, src)
    open(dst, "w").write(rewrite_implies(src))
    return dst


def replay(pid, res, fails):
    g = res.get("group_def")
    tj = res.get("trace_json")
    if not g or g.get("form") != "explicit":
        return dict(reproduced=False, reason="contract-instrumented (dfcc) group: the counterexample is a pre-state of the contract world, no native driver")
    if not tj or not os.path.exists(tj):
        return dict(reproduced=False, reason="no verifier trace")
    if g.get("loops"):
        return dict(reproduced=False, reason="group uses injected loop contracts: no native driver")
    wd = tj + ".native"
    shutil.rmtree(wd, ignore_errors=True)
    os.makedirs(wd)
    harness = native_copy(os.path.join(vf.VERIF, "harness", g["harness"]), wd)
    defs = " ".join("-D" + vf.q(d) for d in g.get("defs", []))
    tus = list(g.get("tus", []))
    st = g.get("static_tu")
    attempts = []
    for f in fails[:4]:
        inputs, _ = vtrace.initial_state(tj, f["property"])
        if inputs is None:
            continue
        unit = os.path.join(wd, "unit_%s.c" % re.sub(r"\W", "_", f["property"]))
        with open(unit, "w") as fh:
            fh.write('#include "%s"\n' % harness)
            if st:
                fh.write('#include "%s"\n' % os.path.join(vf.SRC, st))
            fh.write("static void vw_native_inputs(void)\n{\n" + "\n".join(c_inputs(inputs)) + "\n}\n")
            fh.write("int main(void) { vw_native_inputs(); harness(); return vw_failed ? 1 : 0; }\n")
        exe = unit[:-2]
        cmd = ("gcc -std=gnu99 -g -O0 -w -fsanitize=address,undefined -fno-sanitize-recover=undefined -ftrivial-auto-var-init=zero "
               "%s %s -include %s -include %s %s %s -Wl,--unresolved-symbols=ignore-all -o %s" %
               (defs, vf.incflags(), os.path.join(vf.VERIF, "lib", "native_shim.h"), os.path.join(vf.VERIF, "contracts", "vw_pre.h"),
                unit, " ".join(os.path.join(vf.SRC, t) for t in tus), exe))
        p = subprocess.run(cmd, shell=True, capture_output=True, text=True, cwd=wd)
        if p.returncode != 0:
            attempts.append(dict(obligation=f["property"], outcome="native build failed", output=p.stderr[-1500:]))
            continue
        try:
            r = subprocess.run([exe], capture_output=True, text=True, timeout=60, env=dict(os.environ, ASAN_OPTIONS="detect_leaks=0:allocator_may_return_null=1"))
            out, rc = (r.stdout + r.stderr)[-3000:], r.returncode
        except subprocess.TimeoutExpired:
            out, rc = "timeout (unbounded loop?)", -9
        same = ("NATIVE-FAIL: " + f["description"]) in out
        sanit = "ERROR: AddressSanitizer" in out or "runtime error:" in out
        anyfail = "NATIVE-FAIL:" in out
        attempts.append(dict(obligation=f["property"], description=f["description"], exit=rc, same_clause_failed=same, sanitizer_report=sanit,
                             other_clause_failed=anyfail and not same, assumption_not_met=(rc == 77), command=cmd, output=out, inputs=c_inputs(inputs)[:400]))
        # a sanitizer report / hang only reproduces an obligation that is itself about memory safety or termination
        kind = f["property"].split(".")[1] if "." in f["property"] else ""
        safety = kind in ("pointer_dereference", "array_bounds", "overflow", "pointer_arithmetic", "pointer_primitives", "division-by-zero", "undefined-shift", "unwind", "pointer")
        if same or ((sanit or rc == -9) and safety):
            shutil.copy(unit, os.path.join(vf.VERIF, "replay", "out", "%s__%s__native.c" % (pid, g["name"])))
            return dict(reproduced=True, how="the verifier's initial state was loaded into the natively compiled harness + /repo code (gcc, ASan, UBSan): "
                        + ("the same clause fails" if same else "a sanitizer reports an error" if sanit else "the code does not terminate"),
                        native_source=os.path.join(vf.VERIF, "replay", "out", "%s__%s__native.c" % (pid, g["name"])), attempts=attempts)
    return dict(reproduced=False, reason="native run of the verifier's initial state did not fail the clause (stub return values / heap layout are not replayed)", attempts=attempts)
