#!/usr/bin/env python3
"""lib/cex.py <replay.json> [-p PROPERTY] [substr ...]  - counterexample of a failed obligation, filtered by substrings.
Uses the full cbmc trace (build dir, kept on failure) when it is still there, else the excerpt stored in the replay file."""
import json, sys, os
sys.path.insert(0, os.path.dirname(os.path.abspath(__file__)))
import vtrace
args = sys.argv[1:]
d = json.load(open(args[0])); args = args[1:]
prop = None
if args and args[0] == "-p":
    prop = args[1]; args = args[2:]
for f in d["failed_obligations"]:
    print("FAILED:", f["property"], "|", f["description"][:90], "|", f["file"].split("/")[-1], f["line"])
prop = prop or d["failed_obligations"][0]["property"]
tj = d.get("trace_json", "")
lines = None
if tj and os.path.exists(tj):
    ins, steps = vtrace.initial_state(tj, prop)
    if ins is not None:
        lines = ["== " + prop, "-- inputs:"] + ["  %s = %s" % (k, v) for k, v in ins.items() if not vtrace.ZERO.match(v)] + ["-- execution:"] + ["  " + s for s in steps]
if lines is None:
    lines = d["verifier_trace"]
for l in lines:
    if "__dfcc" in l or "tmp_cc" in l or "write_set" in l or "Check that" in l:
        continue
    if not args or any(p in l for p in args) or l.startswith("==") or l.startswith("--"):
        print(l)
