#!/usr/bin/env python3
"""lib/covmap.py [--json out] : which real /repo functions does each obligation group analyse?

For every group the translation units are compiled exactly as the check compiles them (vf.build_group); the functions of
/repo/src that have a body in the linked goto binary and are reachable from the harness through DIRECT calls are the ones
whose code is part of that group's proof obligations (the function under contract plus the callees analysed inline under
its contract).  Callees replaced by a contract (dfcc) and callees that the harness stubs are not in the set.  Calls through
function pointers are followed only where the harness itself installs the pointer target, which the goto call graph shows
as an edge from a harness-side function; edges out of repo functions are taken from the source text (direct calls only), so
the over-approximation of goto-instrument's function-pointer removal does not inflate the set.
Prints the functions of /repo/src (drivers excluded) that NO group analyses."""
import sys, os, re, json, glob, importlib.util, shutil
sys.path.insert(0, os.path.dirname(os.path.abspath(__file__)))
import vf
from concurrent.futures import ThreadPoolExecutor

FN_RE = re.compile(r'^(?:static\s+|WEAK\s+|WEAK_TEST\s+)*[A-Za-z_][A-Za-z0-9_ \*]*?\b([A-Za-z_][A-Za-z0-9_]*)\s*\([^;{)]*\)\s*\{', re.M)


def repo_functions():
    """name -> (file, body text) for every function defined under SRC (drivers excluded)"""
    fns = {}
    for f in glob.glob(os.path.join(vf.SRC, "**", "*.c"), recursive=True):
        if "/driver/" in f:
            continue
        src = open(f, errors="replace").read()
        for m in FN_RE.finditer(src):
            n = m.group(1)
            if n in ("if", "while", "for", "switch"):
                continue
            i, depth = m.end(), 1
            while i < len(src) and depth:
                depth += {"{": 1, "}": -1}.get(src[i], 0)
                i += 1
            fns[n] = (os.path.relpath(f, vf.SRC), src[m.end():i])
    return fns


def load_groups():
    groups = []
    for f in sorted(glob.glob(os.path.join(vf.VERIF, "obl", "*.py"))):
        spec = importlib.util.spec_from_file_location(os.path.basename(f)[:-3], f)
        m = importlib.util.module_from_spec(spec)
        spec.loader.exec_module(m)
        groups += getattr(m, "GROUPS", [])
    return groups


_TABLES = {}


def tables():
    """(functions, direct-call edges incl. constant dispatch tables) of the source tree, computed once per process"""
    if "t" in _TABLES:
        return _TABLES["t"]
    fns = repo_functions()
    names = set(fns)
    direct = {n: {c for c in re.findall(r"\b([A-Za-z_][A-Za-z0-9_]*)\s*\(", body) if c in names and c != n} for n, (f, body) in fns.items()}
    # constant dispatch tables (e.g. the LSS service table): a function that names a file-scope table calls what the table lists
    for f in {v[0] for v in fns.values()}:
        src = open(os.path.join(vf.SRC, f), errors="replace").read()
        for m in re.finditer(r"^[A-Za-z_][^;{}()]*?\b([A-Za-z_][A-Za-z0-9_]*)\s*(?:\[[^\]]*\])?\s*=\s*\{", src, re.M):
            i, depth = m.end(), 1
            while i < len(src) and depth:
                depth += {"{": 1, "}": -1}.get(src[i], 0)
                i += 1
            listed = {c for c in re.findall(r"\b([A-Za-z_][A-Za-z0-9_]*)\b", src[m.end():i]) if c in names}
            for n, (ff, body) in fns.items():
                if ff == f and listed and re.search(r"\b%s\b" % re.escape(m.group(1)), body):
                    direct[n] |= listed - {n}
    _TABLES["t"] = (fns, direct)
    return _TABLES["t"]


def analysed_in(g, wd, gb):
    """real /repo functions whose body is part of the proof obligations of group g (linked goto binary gb in wd)"""
    fns, direct = tables()
    rc, out, _ = vf.sh("goto-instrument --show-symbol-table --json-ui %s" % gb, cwd=wd, timeout=300)
    body_here = set()
    for it in json.loads(out[out.index("["):]):
        for k, v in it.get("symbolTable", {}).items():
            loc = v.get("location") or {}
            if isinstance(loc, dict) and str(loc.get("file", "")).startswith(vf.SRC) and isinstance(v.get("value"), dict) and v["value"].get("id") == "compiled":
                body_here.add(k)
    rc, out, _ = vf.sh("goto-instrument --reachable-call-graph %s" % gb, cwd=wd, timeout=300)
    replaced = {r.split("/")[0] for r in g.get("replace", [])} | {f for l in g.get("stub_bodies", {}).values() for f in l}
    roots = set()
    for line in out.splitlines():
        m = re.match(r"(\S+) -> (\S+)$", line)
        if m and m.group(1) not in fns and m.group(2) in body_here:
            roots.add(m.group(2))
    seen, todo = set(), [r for r in roots if r not in replaced]
    while todo:
        f = todo.pop()
        if f in seen:
            continue
        seen.add(f)
        for c in direct.get(f, ()):
            if c in body_here and c not in replaced and c not in seen:
                todo.append(c)
    return sorted(seen)


def analysed(g, root):
    wd = os.path.join(root, g["name"])
    try:
        gb = vf.build_group(g, wd, "quick")
        lst = analysed_in(g, wd, gb)
    except Exception as e:
        return g["name"], None, str(e)[:200]
    shutil.rmtree(wd, ignore_errors=True)
    return g["name"], lst, ""


def main():
    fns, direct = tables()
    names = set(fns)
    groups = load_groups()
    root = os.path.join(vf.VERIF, "build", "covmap_%d" % os.getpid())
    os.makedirs(root, exist_ok=True)
    with ThreadPoolExecutor(max_workers=14) as ex:
        res = list(ex.map(lambda g: analysed(g, root), groups))
    shutil.rmtree(root, ignore_errors=True)
    cov = {}
    for name, lst, err in res:
        if lst is None:
            print("group %s: %s" % (name, err))
            continue
        cov[name] = lst
    allf = set().union(*cov.values()) if cov else set()
    missing = sorted((fns[n][0], n) for n in names - allf)
    print("%d functions in src (drivers excluded), %d analysed by at least one group, %d by none:" % (len(names), len(names & allf), len(missing)))
    for f, n in missing:
        print("  %-40s %s" % (f, n))
    if "--json" in sys.argv:
        with open(sys.argv[sys.argv.index("--json") + 1], "w") as fh:
            json.dump(dict(groups=cov, not_analysed=[n for f, n in missing]), fh, indent=1)


if __name__ == "__main__":
    main()
