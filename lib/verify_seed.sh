#!/bin/bash
# usage: lib/verify_seed.sh <agent-out-dir> <clean worktree> — confirm a seeded change: demo 0 without / 1 with patch, tests pass with patch
O=$1; W=$2
cd $W && git checkout -q -- . && git clean -fdq -e _build
INC="-I src/core -I src/config -I src/hal -I src/object/basic -I src/object/cia301 -I src/service/cia301 -I src/service/cia305"
gcc -std=c99 -g $INC $O/demo.c $(find src -name '*.c' -not -path '*/driver/*') -o /tmp/demo_$$ 2>/dev/null && timeout 120 /tmp/demo_$$ >/dev/null 2>&1; echo "demo without patch: exit $?"
git apply $O/patch.diff || { echo "PATCH DOES NOT APPLY"; exit 3; }
gcc -std=c99 -g $INC $O/demo.c $(find src -name '*.c' -not -path '*/driver/*') -o /tmp/demo_$$ 2>/dev/null && timeout 120 /tmp/demo_$$ 2>&1 | tail -3; echo "demo with patch: exit ${PIPESTATUS[0]}"
[ -d _build ] || cmake -G Ninja -B _build -DCMAKE_BUILD_TYPE=RelWithDebInfo -DCMAKE_C_FLAGS=-Wno-error >/dev/null 2>&1
cmake --build _build -- -k 0 >/dev/null 2>&1; echo "tests passing with patch: $(ctest --test-dir _build -j8 --timeout 900 2>&1 | grep -c Passed)"
git diff --stat | tail -1
git checkout -q -- .; rm -f /tmp/demo_$$
