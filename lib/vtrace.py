"""summarise a cbmc --json-ui --trace output: inputs (nondet initial state / callee contract choices) per failed obligation"""
import json

def load(path):
    out = open(path).read()
    data = json.loads(out[out.index("["):])
    for item in data:
        if "result" in item:
            return item["result"]
    return []

def val(v):
    if v is None:
        return "?"
    if "data" in v:
        return v["data"]
    if "elements" in v:
        return "{" + ",".join(val(e.get("value")) for e in v["elements"][:12]) + ("..." if len(v["elements"]) > 12 else "") + "}"
    if "members" in v:
        return "{" + ",".join("." + m.get("name", "?") + "=" + val(m.get("value")) for m in v["members"][:16]) + "}"
    return v.get("name", "?")

def excerpt(path, props, maxlines=120):
    res = load(path)
    lines = []
    for r in res:
        if r.get("property") not in props or "trace" not in r:
            continue
        lines.append("== %s: %s" % (r["property"], r.get("description")))
        n = 0
        for st in r["trace"]:
            if st.get("hidden"):
                continue
            t = st.get("stepType")
            loc = st.get("sourceLocation", {})
            fn = loc.get("function", "")
            if t == "assignment":
                lhs = st.get("lhs", "")
                if lhs.startswith("__CPROVER") or "$tmp" in lhs or lhs.startswith("return_value"):
                    pass
                lines.append("  %s = %s   (%s:%s)" % (lhs, val(st.get("value")), fn, loc.get("line", "")))
                n += 1
            elif t == "function-call":
                lines.append("  call %s" % st.get("function", {}).get("displayName", ""))
            elif t == "failure":
                lines.append("  FAILURE %s %s:%s" % (st.get("reason", ""), loc.get("file", ""), loc.get("line", "")))
            if n > maxlines:
                lines.append("  ...")
                break
        break
    return lines
