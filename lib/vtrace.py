"""summarise a cbmc --json-ui --trace output: inputs (nondet initial state / callee contract choices) per failed obligation"""
import json, re

def load(path):
    out = open(path).read()
    data = json.loads(out[out.index("["):])
    for item in data:
        if "result" in item:
            return item["result"]
    return []

def val(v):
    if v is None:
        return "?"
    if "data" in v:
        return str(v["data"])
    if "elements" in v:
        return "{" + ",".join(val(e.get("value")) for e in v["elements"][:12]) + ("..." if len(v["elements"]) > 12 else "") + "}"
    if "members" in v:
        return "{" + ",".join("." + m.get("name", "?") + "=" + val(m.get("value")) for m in v["members"][:16]) + "}"
    return v.get("name", "?")

ZERO = re.compile(r"^(0|0u|0ul|0l|FALSE|NULL|\(\(.*\)NULL\)|/\*enum\*/\w+_(INVALID|IDLE|NONE))$")

def inputs_and_steps(trace):
    """returns (inputs: ordered dict lhs->value of world/ghost/harness globals before harness(), steps after)"""
    inputs, steps, in_h = {}, [], False
    for st in trace:
        t = st.get("stepType")
        if st.get("hidden") and not (t == "assignment" and not in_h):
            continue
        loc = st.get("sourceLocation", {})
        if t == "function-call" and st.get("function", {}).get("displayName") == "harness":
            in_h = True
            continue
        if t == "assignment":
            lhs = st.get("lhs", "")
            v = st.get("value", {})
            if "members" in v or "elements" in v or "$pad" in lhs:
                continue
            if not in_h:
                if re.match(r"^(V_|G_|H_)", lhs):
                    inputs[lhs] = val(v)
            else:
                if lhs.startswith("__CPROVER") or "write_set" in lhs or "__car" in lhs or "contract_" in lhs:
                    continue
                steps.append("%s = %s   (%s:%s)" % (lhs, val(v), loc.get("function", ""), loc.get("line", "")))
        elif t == "function-call" and in_h:
            n = st.get("function", {}).get("displayName", "")
            if not n.startswith("__CPROVER"):
                steps.append("call %s" % n)
        elif t == "failure":
            steps.append("FAILURE %s %s:%s" % (st.get("reason", ""), loc.get("file", ""), loc.get("line", "")))
    return inputs, steps

def excerpt(path, props, maxlines=160):
    res = load(path)
    lines = []
    for r in res:
        if r.get("property") not in props or "trace" not in r:
            continue
        inputs, steps = inputs_and_steps(r["trace"])
        lines.append("== %s: %s" % (r["property"], r.get("description")))
        lines.append("-- non-zero inputs (initial state of the verification world; everything not listed is 0/NULL):")
        nz = [(k, v) for k, v in inputs.items() if not ZERO.match(v)]
        for k, v in nz[:200]:
            lines.append("  %s = %s" % (k, v))
        lines.append("-- execution:")
        lines += ["  " + s for s in steps[:maxlines]]
        if len(steps) > maxlines:
            lines.append("  ... (%d more steps)" % (len(steps) - maxlines))
            lines += ["  " + s for s in steps[-25:]]
        break
    return lines

def initial_state(path, prop):
    for r in load(path):
        if r.get("property") == prop and "trace" in r:
            return inputs_and_steps(r["trace"])
    return None, None
