#!/bin/bash
# usage: lib/seedtest.sh <seeded-dir> <property> [check args]  — run a check against a scratch copy of /repo with the seeded patch applied
S=$1; P=$2; shift 2
M=/tmp/vseed.$$; rm -rf $M; mkdir -p $M; cp -r /repo/src $M/src
(cd $M && patch -p1 -s < /verif/seeded/$S/patch.diff) || { echo "PATCH FAILED $S"; rm -rf $M; exit 3; }
VERIF_REPO=$M /verif/check $P ${TIER:-quick} "$@" 2>&1 | grep "VIOLATION\|quick:\|thorough:\|UNDECIDED" | cut -c1-220 | sed "s/^/[$S $P] /"
rm -rf $M
